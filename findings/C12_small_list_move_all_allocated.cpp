#include <foonathan/memory/memory_pool.hpp>
#include <foonathan/memory/detail/small_free_list.hpp>
#include <cstdio>
#include <vector>
using namespace foonathan::memory;
int main() {
    memory_pool<small_node_pool> pool(4, 4096);
    std::vector<void*> v;
    auto cap = pool.capacity_left() / 4;
    while (pool.capacity_left() >= 4 && v.size() < cap) v.push_back(pool.allocate_node());
    std::fprintf(stderr, "allocated %zu, capacity_left %zu\n", v.size(), pool.capacity_left());
    memory_pool<small_node_pool> p2(std::move(pool));
    p2.deallocate_node(v.back());   // must be fine: memory moved with the pool
    std::fprintf(stderr, "ok, capacity_left %zu\n", p2.capacity_left());
}
