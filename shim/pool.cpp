// shim group "pool": memory_pool<node|array|small> and memory_pool_collection<..., identity|log2> over growing_block_allocator<hook_raw>,
// driven through allocator_traits / composable_allocator_traits (size checks, leak counter) and the member observers
#include "hooks.hpp"
#include <foonathan/memory/memory_pool.hpp>
#include <foonathan/memory/memory_pool_collection.hpp>

using namespace foonathan::memory;
using namespace vshim;
using gba = growing_block_allocator<hook_raw>;

W void w_install_handlers() { install_handlers(); }
W ulong w_impl_offset() { return detail::memory_block_stack::implementation_offset(); }
W ulong w_fence() { return detail::debug_fence_size; }

template <class T>
static long leaked_of(T* o)
{
#if FOONATHAN_MEMORY_DEBUG_LEAK_CHECK
    return o->allocated_;
#else
    (void)o;
    return 0;
#endif
}

#define COMMON(P, T)                                                                                \
    using P##_tr = allocator_traits<T>;                                                             \
    using P##_ct = composable_allocator_traits<T>;                                                  \
    W ulong w_##P##_sizeof() { return sizeof(T); }                                                  \
    W void w_##P##_ctor(void* o, ulong a, ulong bs, ulong id) { VTRY ::new (o) T(a, bs, hook_raw(id)); VCATCH() } \
    W void w_##P##_dtor(void* o) { static_cast<T*>(o)->~T(); }                                     \
    W void w_##P##_move_ctor(void* o, void* f) { ::new (o) T(detail::move(*static_cast<T*>(f))); } \
    W void w_##P##_move_assign(void* o, void* f) { *static_cast<T*>(o) = detail::move(*static_cast<T*>(f)); } \
    W void* w_##P##_allocate_node(void* o, ulong s, ulong a) { VTRY return P##_tr::allocate_node(*static_cast<T*>(o), s, a); VCATCH(nullptr) } \
    W void* w_##P##_allocate_array(void* o, ulong c, ulong s, ulong a) { VTRY return P##_tr::allocate_array(*static_cast<T*>(o), c, s, a); VCATCH(nullptr) } \
    W void w_##P##_deallocate_node(void* o, void* p, ulong s, ulong a) { P##_tr::deallocate_node(*static_cast<T*>(o), p, s, a); } \
    W void w_##P##_deallocate_array(void* o, void* p, ulong c, ulong s, ulong a) { P##_tr::deallocate_array(*static_cast<T*>(o), p, c, s, a); } \
    W void* w_##P##_try_allocate_node(void* o, ulong s, ulong a) { return P##_ct::try_allocate_node(*static_cast<T*>(o), s, a); } \
    W void* w_##P##_try_allocate_array(void* o, ulong c, ulong s, ulong a) { return P##_ct::try_allocate_array(*static_cast<T*>(o), c, s, a); } \
    W ulong w_##P##_try_deallocate_node(void* o, void* p, ulong s, ulong a) { return P##_ct::try_deallocate_node(*static_cast<T*>(o), p, s, a); } \
    W ulong w_##P##_try_deallocate_array(void* o, void* p, ulong c, ulong s, ulong a) { return P##_ct::try_deallocate_array(*static_cast<T*>(o), p, c, s, a); } \
    W ulong w_##P##_max_node_size(void* o) { return P##_tr::max_node_size(*static_cast<T*>(o)); }  \
    W ulong w_##P##_max_array_size(void* o) { return P##_tr::max_array_size(*static_cast<T*>(o)); } \
    W ulong w_##P##_max_alignment(void* o) { return P##_tr::max_alignment(*static_cast<T*>(o)); }  \
    W ulong w_##P##_capacity_left(void* o) { return static_cast<T*>(o)->capacity_left(); }         \
    W ulong w_##P##_next_capacity(void* o) { return static_cast<T*>(o)->next_capacity(); }         \
    W long w_##P##_leaked(void* o) { return leaked_of(static_cast<T*>(o)); }                       \
    W ulong w_##P##_arena_size(void* o) { return static_cast<T*>(o)->arena_.size(); }

#define POOL(P, TYPE)                                                                               \
    using P##_t = memory_pool<TYPE, gba>;                                                           \
    COMMON(P, P##_t)                                                                                \
    W ulong w_##P##_node_size(void* o) { return static_cast<P##_t*>(o)->node_size(); }             \
    W ulong w_##P##_pool_capacity_left(void* o, ulong s) { (void)s; return static_cast<P##_t*>(o)->capacity_left() / static_cast<P##_t*>(o)->node_size(); } \
    W ulong w_##P##_min_block_size(ulong ns, ulong n) { return P##_t::min_block_size(ns, n); }    \
    W ulong w_##P##_is_collection() { return 0; }

#define COLL(P, TYPE, DIST)                                                                         \
    using P##_t = memory_pool_collection<TYPE, DIST, gba>;                                         \
    COMMON(P, P##_t)                                                                                \
    W ulong w_##P##_node_size(void* o) { return static_cast<P##_t*>(o)->max_node_size(); }         \
    W ulong w_##P##_pool_capacity_left(void* o, ulong s) { return static_cast<P##_t*>(o)->pool_capacity_left(s); } \
    W ulong w_##P##_min_block_size(ulong ns, ulong n) { (void)ns; (void)n; return 0; }             \
    W ulong w_##P##_is_collection() { return 1; }

POOL(pn, node_pool)
POOL(pa, array_pool)
POOL(ps, small_node_pool)
COLL(cnl, node_pool, log2_buckets)
COLL(cal, array_pool, log2_buckets)
COLL(csl, small_node_pool, log2_buckets)
COLL(cni, node_pool, identity_buckets)

// ---- representation access for the inductive collection harness (node_pool = free_memory_list unless double-dealloc check)
using cnl_list = node_pool::type;
W ulong w_list_sizeof() { return sizeof(cnl_list); }
W ulong w_list_is_ordered() { return std::is_same<cnl_list, detail::ordered_free_memory_list>::value; }
#if !FOONATHAN_MEMORY_DEBUG_DOUBLE_DEALLOC_CHECK
W void w_list_write(void* l, void* first, ulong ns, ulong cap)
{
    auto* p = static_cast<detail::free_memory_list*>(l);
    p->first_ = static_cast<char*>(first); p->node_size_ = ns; p->capacity_ = cap;
}
W void* w_list_first(void* l) { return static_cast<detail::free_memory_list*>(l)->first_; }
W ulong w_list_capacity(void* l) { return static_cast<detail::free_memory_list*>(l)->capacity_; }
W ulong w_list_node_size(void* l) { return static_cast<detail::free_memory_list*>(l)->node_size_; }
#endif
W void w_cnl_set(void* o, void* used_head, void* cur, void* array, ulong no_elements, ulong next_bs, ulong id, long leaked)
{
    auto* c = static_cast<cnl_t*>(o);
    c->arena_.used_.head_ = static_cast<detail::memory_block_stack::node*>(used_head);
    static_cast<gba&>(c->arena_).block_size_ = next_bs;
    static_cast<hook_raw&>(static_cast<gba&>(c->arena_)).id = id;
    c->stack_ = detail::fixed_memory_stack(cur);
    c->pools_.array_ = static_cast<cnl_list*>(array);
    c->pools_.no_elements_ = no_elements;
#if FOONATHAN_MEMORY_DEBUG_LEAK_CHECK
    c->allocated_ = leaked;
#else
    (void)leaked;
#endif
}
W void* w_cnl_cur(void* o) { return static_cast<cnl_t*>(o)->stack_.top(); }
W void* w_cnl_used(void* o) { return static_cast<cnl_t*>(o)->arena_.used_.head_; }
W void* w_cnl_array(void* o) { return static_cast<cnl_t*>(o)->pools_.array_; }
W ulong w_cnl_no_elements(void* o) { return static_cast<cnl_t*>(o)->pools_.no_elements_; }
W void w_node_write(void* n, void* prev, ulong usable)
{
    auto* p = static_cast<detail::memory_block_stack::node*>(n);
    p->prev = static_cast<detail::memory_block_stack::node*>(prev);
    p->usable_size = usable;
}
W void* w_node_prev(void* n) { return static_cast<detail::memory_block_stack::node*>(n)->prev; }
W ulong w_node_usable(void* n) { return static_cast<detail::memory_block_stack::node*>(n)->usable_size; }
W void w_cnl_reserve(void* o, ulong ns, ulong cap) { VTRY static_cast<cnl_t*>(o)->reserve(ns, cap); VCATCH() }
