#!/usr/bin/env python3
"""validate MANIFEST.json and every evidence file against the schemas (run with python3-vt)"""
import json, jsonschema, glob, sys
jsonschema.validate(json.load(open('/verif/MANIFEST.json')), json.load(open('/root/.vp/MANIFEST.schema.json')))
es = json.load(open('/root/.vp/EVIDENCE.schema.json'))
bad = 0
for f in sorted(glob.glob('/verif/evidence/*.json')):
    try: jsonschema.validate(json.load(open(f)), es)
    except Exception as e: bad += 1; print('INVALID', f, str(e)[:200])
print('manifest ok;', len(glob.glob('/verif/evidence/*.json')), 'evidence files,', bad, 'invalid')
sys.exit(1 if bad else 0)
