/* harness-side API: one harness source, three back ends (DESIGN.md 1.3)
 *   CBMC (default)       : symbolic; memory = HEAP[] array of the generated C
 *   -DVERIF_GEN_NATIVE   : gcc build of the generated C, inputs from a replay file
 *   -DVERIF_NATIVE       : native objects of the real sources, HEAP mmap'ed at HEAP_BASE, inputs from a replay file
 */
#ifndef VERIF_H
#define VERIF_H
#include "gen.h"
#include "rt.h"

#if defined(VERIF_NATIVE) || defined(VERIF_GEN_NATIVE)
#include <stdio.h>
#include <stdlib.h>
uint64_t replay_next(const char* kind);
void replay_assert(int c, const char* msg);
void replay_assume(int c, const char* what);
#define nondet_u64() ((uint64_t)replay_next("nondet_u64"))
#define nondet_u32() ((uint32_t)replay_next("nondet_u32"))
#define nondet_u16() ((uint16_t)replay_next("nondet_u16"))
#define nondet_u8() ((uint8_t)replay_next("nondet_u8"))
#define ASSUME(c) replay_assume(!!(c), #c)
#define ASSERT(c, msg) replay_assert(!!(c), msg)
#ifdef VERIF_GEN_NATIVE
#define HAVOC_HEAP() do { replay_load_heap(); ir_global_ctors(); } while (0)
#else
#define HAVOC_HEAP() replay_load_heap()      /* the real program runs its static initialisers before main */
#endif
void replay_load_heap(void);
#else
uint64_t nondet_u64(void);
uint32_t nondet_u32(void);
uint16_t nondet_u16(void);
uint8_t nondet_u8(void);
#define ASSUME(c) __CPROVER_assume(c)
#define ASSERT(c, msg) __CPROVER_assert((c), msg)
#define HAVOC_HEAP() do { __CPROVER_havoc_object(HEAP); ir_global_ctors(); } while (0)
#endif

#ifdef VERIF_NATIVE
/* real code: memory is real memory at the same absolute addresses */
#define H8(a) (*(volatile uint8_t*)(uintptr_t)(a))
#define H16(a) (*(volatile uint16_t*)(uintptr_t)(a))
#define H32(a) (*(volatile uint32_t*)(uintptr_t)(a))
#define H64(a) (*(volatile uint64_t*)(uintptr_t)(a))
#define HS8(a, v) (*(volatile uint8_t*)(uintptr_t)(a) = (v))
#define HS64(a, v) (*(volatile uint64_t*)(uintptr_t)(a) = (v))
extern int verif_exc;          /* set by the native shim wrappers when the call threw */
extern int verif_exc_kind;
#define EXC verif_exc
#else
#define H8(a) ld8((a), RH)
#define H16(a) ld16((a), RH)
#define H32(a) ld32((a), RH)
#define H64(a) ld64((a), RH)
#define HS8(a, v) st8((a), (v), RH)
#define HS64(a, v) st64((a), (v), RH)
#endif

/* the witness twin: with -DWITNESS the final assert(0) must FAIL (reachability of the end of the harness) */
#ifdef WITNESS
#define WITNESS_END() ASSERT(0, "WITNESS: end of harness reachable")
#else
#define WITNESS_END() ((void)0)
#endif

#define IN_HEAP(a, n) ((a) >= HEAP_BASE && (a) <= HEAP_BASE + HEAP_SIZE - (n))
#endif
