/* Object-creating helpers with a throwing element type over a recording leaf (C20, C11).
 *  -DCASE=1 allocate_unique<elem[]>(n)   2 allocate_unique<elem>   3 allocate_shared<elem>
 *  -DCASE=4 allocate_joint<jt>(additional, n, m)   5 clone_joint   6 move + reset of a joint_ptr
 *  -DCASE=7 allocate_joint<jt2>: byte array before the element array (alignment padding inside the joint memory)
 * Symbolic: array length 0..NMAX, which constructor call fails (or none), whether the leaf allocation fails,
 * the additional size of the joint block (0..64) and both member array lengths. */
#include "hooks_common.h"
#ifndef NMAX
#define NMAX 4
#endif
#define LOGN 6
struct call { uint64_t id, kind, count, size, align, ptr; int dealloc; };
static struct call lg[LOGN]; static int nlog;
static uint64_t blk[2] = { HEAP_BASE + 0x40, HEAP_BASE + 0x100 }; static int nblk_used;
static int leaf_may_fail = 1;
uint64_t verif_leaf_alloc(uint64_t id, uint64_t kind, uint64_t count, uint64_t size, uint64_t align)
{
    uint64_t p = 0;
    if (!(leaf_may_fail && nondet_u8() == 0) && nblk_used < 2) p = blk[nblk_used++];
    if (nlog < LOGN) { lg[nlog].id = id; lg[nlog].kind = kind; lg[nlog].count = count; lg[nlog].size = size; lg[nlog].align = align; lg[nlog].ptr = p; lg[nlog].dealloc = 0; nlog++; }
    if (p) ASSUME(IN_HEAP(p, count * size) && count * size <= 0xc0);
    return p;
}
void verif_leaf_dealloc(uint64_t id, uint64_t kind, uint64_t p, uint64_t count, uint64_t size, uint64_t align)
{
    if (nlog < LOGN) { lg[nlog].id = id; lg[nlog].kind = kind; lg[nlog].count = count; lg[nlog].size = size; lg[nlog].align = align; lg[nlog].ptr = p; lg[nlog].dealloc = 1; nlog++; }
}
uint64_t verif_leaf_try_dealloc(uint64_t id, uint64_t kind, uint64_t p, uint64_t count, uint64_t size, uint64_t align) { verif_leaf_dealloc(id, kind, p, count, size, align); return 1; }
uint64_t verif_leaf_max(uint64_t id, uint64_t which) { (void)id; (void)which; return ~UINT64_C(0) >> 1; }

/* element life-cycle ghosts, indexed by construction order */
#define EMAX 12
static uint64_t e_addr[EMAX]; static int e_ctor[EMAX], e_dtor[EMAX], n_elem, n_ctor_calls, bad_dtor;
static int fail_at = -1;       /* the fail_at-th constructor call throws */
uint64_t verif_should_throw(uint64_t obj, uint64_t what) { (void)obj; (void)what; return n_ctor_calls++ == fail_at; }
void verif_constructed(uint64_t obj)
{
    if (n_elem < EMAX) { e_addr[n_elem] = obj; e_ctor[n_elem] = 1; e_dtor[n_elem] = 0; n_elem++; }
}
void verif_destroyed(uint64_t obj)
{
    int f = -1;
    for (int i = 0; i < EMAX; ++i) if (i < n_elem && e_addr[i] == obj && e_dtor[i] == 0) f = i;
    if (f < 0) bad_dtor++; else e_dtor[f]++;
}
static uint64_t piece_p[2], piece_n[2]; static int piece_seen[2];
void verif_piece(uint64_t which, uint64_t p, uint64_t bytes) { piece_p[which & 1] = p; piece_n[which & 1] = bytes; piece_seen[which & 1]++; }

static void all_destroyed_once(void)
{
    ASSERT(bad_dtor == 0, "C20: no destructor runs for an object that was not constructed (or twice)");
    for (int i = 0; i < EMAX; ++i) if (i < n_elem) ASSERT(e_dtor[i] == 1, "C20: every constructed element is destroyed exactly once");
}

void harness(void)
{
    HAVOC_HEAP();
    w_install_handlers();
    uint64_t LEAF = HEAP_BASE;
    uint8_t f = nondet_u8(); fail_at = f < 12 ? (int)f : -1;
    CLEAR_EXC();
#if CASE == 1
    uint64_t n = nondet_u8(); ASSUME(n <= NMAX);
    w_unique_array(LEAF, n);
    int na = 0, nd = 0; for (int i = 0; i < LOGN; ++i) if (i < nlog) { if (lg[i].dealloc) nd++; else na++; }
    ASSERT(na == 1 && lg[0].kind == 1 && lg[0].count == n && lg[0].size == 8 && lg[0].align == 8, "C09/C20: one array request of n elements");
    if (lg[0].ptr == 0) { ASSERT(EXC && n_elem == 0 && nd == 0, "C20: failed allocation propagates, nothing constructed, nothing released"); }
    else {
        int thrown = fail_at >= 0 && (uint64_t)fail_at < n;
        ASSERT((EXC != 0) == thrown, "C20: the exception propagates exactly when a constructor threw");
        ASSERT(n_elem == (thrown ? fail_at : (int)n), "C20: construction stops at the failing index");
        for (int i = 0; i < EMAX; ++i) if (i < n_elem) ASSERT(e_addr[i] == lg[0].ptr + 8 * (uint64_t)i, "C02: element i is constructed at base + i * sizeof(T)");
        all_destroyed_once();
        ASSERT(nd == 1 && lg[1].dealloc && lg[1].kind == 1 && lg[1].ptr == lg[0].ptr && lg[1].count == n && lg[1].size == 8 && lg[1].align == 8, "C20: the memory is given back once with the parameters of the request");
    }
#elif CASE == 2 || CASE == 3
#if CASE == 2
    w_unique_single(LEAF);
    uint64_t expect_size = 8;
#else
    w_shared_single(LEAF);
    uint64_t expect_size = 0;
#endif
    int na = 0, nd = 0; for (int i = 0; i < LOGN; ++i) if (i < nlog) { if (lg[i].dealloc) nd++; else na++; }
    ASSERT(na == 1 && lg[0].kind == 0, "C09/C20: one node request");
    if (expect_size) ASSERT(lg[0].size == expect_size && lg[0].align == 8, "C09: sizeof(T), alignof(T)");
    else ASSERT(lg[0].size >= 8 && lg[0].align >= 8, "C09: allocate_shared requests room for the object and its control block");
    if (lg[0].ptr == 0) { ASSERT(EXC && n_elem == 0 && nd == 0, "C20: failed allocation propagates"); }
    else {
        int thrown = fail_at == 0;
        ASSERT((EXC != 0) == thrown, "C20: the exception propagates exactly when the constructor threw");
        ASSERT(n_elem == (thrown ? 0 : 1), "C20: constructed once on success");
        all_destroyed_once();
        ASSERT(nd == 1 && lg[1].dealloc && lg[1].ptr == lg[0].ptr && lg[1].size == lg[0].size && lg[1].align == lg[0].align && lg[1].kind == 0, "C20: the memory is given back once with the parameters of the request");
    }
#elif CASE == 8
    uint64_t add = nondet_u8(), sa = nondet_u8(), sb = nondet_u8(), sc = nondet_u8(), al = (uint64_t)1 << (nondet_u8() & 3);
    ASSUME(add <= 64 && sa >= 1 && sa <= 24 && sb >= 1 && sb <= 24 && sc >= 1 && sc <= 24);
    uint64_t SZ = w_sizeof_jt(), AL = w_alignof_jt();
    w_joint_alloc_seq(LEAF, add, sa, sb, sc, al);
    ASSERT(nlog >= 1 && !lg[0].dealloc && lg[0].kind == 0 && lg[0].size == SZ + add && lg[0].align == AL, "C11: one upstream node of sizeof(T) + additional size, alignof(T)");
    if (lg[0].ptr != 0) {
        uint64_t obj = lg[0].ptr, lo = obj + SZ, hi = obj + SZ + add;
        if (sa + sb + sc + 3 * (al - 1) <= add) ASSERT(!EXC, "C11: three pieces that fit even without reuse of the released one are all served");
        if (sa + sb > add) ASSERT(EXC && exc_is(XK_OOFM), "C11: a request that does not fit the joint memory throws out_of_fixed_memory");
        if (!EXC) {
            ASSERT(piece_seen[0] == 2 && piece_seen[1] == 2, "pieces observed");
            ASSERT(piece_p[0] >= lo && piece_p[0] + piece_n[0] <= hi && (piece_p[0] & (al - 1)) == 0, "C11: the piece allocated second lies inside the joint memory, aligned");
            ASSERT(piece_p[1] >= lo && piece_p[1] + piece_n[1] <= hi && (piece_p[1] & (al - 1)) == 0, "C11: the piece allocated after a non-last release lies inside the joint memory, aligned");
            ASSERT(piece_p[0] + piece_n[0] <= piece_p[1] || piece_p[1] + piece_n[1] <= piece_p[0], "C11: releasing a piece that is not the last allocation frees nothing: the still-live later piece and the next allocation are disjoint");
        }
        { int nd = 0, di = -1; for (int i = 0; i < LOGN; ++i) if (i < nlog && lg[i].dealloc) { nd++; di = i; }
          ASSERT(nd == 1 && lg[di < 0 ? 0 : di].ptr == obj && lg[di < 0 ? 0 : di].size == SZ + add && lg[di < 0 ? 0 : di].align == AL && lg[di < 0 ? 0 : di].kind == 0, "C11: the block is released whole, once, with exactly the size and alignment it was allocated with"); }
    }
#elif CASE >= 4
    uint64_t add = nondet_u8(), n = nondet_u8(), m = nondet_u8(); ASSUME(add <= 64 && n <= NMAX && m <= 16);
#if CASE == 7
    uint64_t SZ = w_sizeof_jt2(), AL = w_alignof_jt2();
    ASSUME(n >= 1);
    w_joint2_create(LEAF, add, n, m);
#else
    uint64_t SZ = w_sizeof_jt(), AL = w_alignof_jt();
#endif
#if CASE == 7
#elif CASE == 4
    w_joint_create(LEAF, add, n, m);
#elif CASE == 5
    w_joint_clone(LEAF, add, n, m);
#else
    w_joint_move_reset(LEAF, add, n, m);
#endif
    ASSERT(nlog >= 1 && !lg[0].dealloc && lg[0].kind == 0 && lg[0].size == SZ + add && lg[0].align == AL, "C11: one upstream node of sizeof(T) + additional size, alignof(T)");
    if (lg[0].ptr == 0) { ASSERT(EXC && n_elem == 0, "C11: failed allocation propagates"); }
    else {
        uint64_t obj = lg[0].ptr, lo = obj + SZ, hi = obj + SZ + add;
#if CASE == 7
        /* byte array first: the element array behind it needs padding up to its alignment */
        int fits = m + ((8 - (m & 7)) & 7) + n * 8 <= add;
#else
        int fits = n * 8 + m <= add;      /* elem array first (8-aligned, SZ is a multiple of 8), then the char array */
#endif
        int thrown = fail_at >= 0 && (uint64_t)fail_at < n;
        if (!fits && !thrown) ASSERT(EXC && exc_is(XK_OOFM), "C11: a request that does not fit the joint memory throws out_of_fixed_memory");
#if CASE == 4 || CASE == 6 || CASE == 7
        if (fits && !thrown) {
            ASSERT(!EXC, "C11: fitting requests succeed (exact fit included)");
            ASSERT(piece_seen[0] == 1 && piece_seen[1] == 1, "pieces observed");
            ASSERT(piece_p[0] >= lo && piece_p[0] + piece_n[0] <= hi && (piece_p[0] & 7) == 0, "C11: the element array lies inside the joint memory behind the object, aligned for its element type");
            ASSERT(piece_p[1] >= lo && piece_p[1] + piece_n[1] <= hi, "C11: the second array lies inside the joint memory");
            ASSERT(piece_p[0] + piece_n[0] <= piece_p[1] || piece_p[1] + piece_n[1] <= piece_p[0] || piece_n[0] == 0 || piece_n[1] == 0, "C11: the pieces are disjoint");
            ASSERT(n_elem == (int)n, "C20: every element constructed once");
        }
        all_destroyed_once();
        { int nd = 0, di = -1; for (int i = 0; i < LOGN; ++i) if (i < nlog && lg[i].dealloc) { nd++; di = i; }
          ASSERT(nd == 1 && lg[di < 0 ? 0 : di].ptr == obj && lg[di < 0 ? 0 : di].size == SZ + add && lg[di < 0 ? 0 : di].align == AL && lg[di < 0 ? 0 : di].kind == 0, "C11: the block is released whole, once, with exactly the size and alignment it was allocated with"); }
#else
        /* clone: a second upstream node for the copy; both released; elements of both destroyed once */
        all_destroyed_once();
        { int na = 0, nd = 0; for (int i = 0; i < LOGN; ++i) if (i < nlog) { if (lg[i].dealloc) nd++; else if (lg[i].ptr) na++; }
          ASSERT(na == nd, "C11/C20: every upstream node obtained for the original and the clone is released exactly once");
          if (fits && !EXC) { ASSERT(na == 2, "C11: the clone gets its own upstream node");
              ASSERT(lg[1].size >= SZ + n * 8 + m && lg[1].size <= SZ + add, "C11: clone requests sizeof(T) + the joint memory actually used"); } }
#endif
    }
#endif
    WITNESS_END();
}
