// shim group "temp": temporary_allocator, temporary_stack, the global stack list and its thread-local bookkeeping (C14)
#include "hooks.hpp"
#include <foonathan/memory/temporary_allocator.hpp>
using namespace foonathan::memory;
using namespace vshim;
W void w_install_handlers() { install_handlers(); }
W void* w_get_temporary_stack(ulong initial) { VTRY return &get_temporary_stack(initial); VCATCH(nullptr) }
W ulong w_sizeof_temporary_stack() { return sizeof(temporary_stack); }
W ulong w_sizeof_temporary_allocator() { return sizeof(temporary_allocator); }
W void w_init_ctor(void* o, ulong initial) { VTRY ::new (o) temporary_stack_initializer(initial); VCATCH() }
W void w_init_dtor(void* o) { static_cast<temporary_stack_initializer*>(o)->~temporary_stack_initializer(); }
W void w_ta_ctor(void* o) { VTRY ::new (o) temporary_allocator(); VCATCH() }
W void w_ta_ctor_stack(void* o, void* st) { ::new (o) temporary_allocator(*static_cast<temporary_stack*>(st)); }
W void w_ta_dtor(void* o) { static_cast<temporary_allocator*>(o)->~temporary_allocator(); }
W void* w_ta_allocate(void* o, ulong s, ulong a) { VTRY return static_cast<temporary_allocator*>(o)->allocate(s, a); VCATCH(nullptr) }
W void w_ta_shrink_to_fit(void* o) { static_cast<temporary_allocator*>(o)->shrink_to_fit(); }
W ulong w_ta_is_active(void* o) { return static_cast<temporary_allocator*>(o)->is_active(); }
// observable position of a temporary stack: bump pointer and number of blocks in use
W void* w_ts_cur(void* st) { return static_cast<temporary_stack*>(st)->stack_.stack_.top(); }
W ulong w_ts_blocks(void* st) { return static_cast<temporary_stack*>(st)->stack_.arena_.size(); }
W ulong w_ts_cached(void* st) { return static_cast<temporary_stack*>(st)->stack_.arena_.cache_size(); }
W void* w_ts_top_alloc(void* st) { return static_cast<temporary_stack*>(st)->top_; }
#if FOONATHAN_MEMORY_TEMPORARY_STACK_MODE >= 2
W ulong w_ts_in_use(void* st) { return static_cast<temporary_stack*>(st)->in_use_.load(); }
// the nifty counter of one more translation unit: its destructor is what runs at program exit for every TU
W void w_nifty_dtor() { (&detail::temporary_allocator_dtor)->~temporary_allocator_dtor_t(); }
#endif
