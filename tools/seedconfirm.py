#!/usr/bin/env python3
"""confirm seeded changes in a scratch worktree: patch applies, library builds, unedited test-suite passes with it,
demo passes on the clean tree and fails with the change.  usage: seedconfirm.py <worktree> <seed>..."""
import sys, os, subprocess, json, glob
wt = sys.argv[1]; seeds = sys.argv[2:]
def sh(cmd, cwd=None, timeout=1800):
    return subprocess.run(cmd, shell=True, cwd=cwd, stdout=subprocess.PIPE, stderr=subprocess.STDOUT, text=True, timeout=timeout)
CFG = {'_build': '-DCMAKE_BUILD_TYPE=RelWithDebInfo',
       '_build_dbg': '-DCMAKE_BUILD_TYPE=Debug -DFOONATHAN_MEMORY_DEBUG_DOUBLE_DEALLOC_CHECK=ON -DFOONATHAN_MEMORY_DEBUG_ASSERT=ON -DFOONATHAN_MEMORY_DEBUG_FENCE=8'}
def build(bd):
    r = sh('cmake -S . -B %s -G Ninja %s -DCMAKE_CXX_FLAGS=-Wno-error -DFETCHCONTENT_TRY_FIND_PACKAGE_MODE=ALWAYS >/dev/null && cmake --build %s -j16 2>&1 | tail -3' % (bd, CFG[bd], bd), cwd=wt)
    return r.returncode == 0, r.stdout[-500:]
def demo(seed, bd):
    src = os.path.join('/verif/seeded', seed, 'demo.cpp')
    lib = glob.glob(os.path.join(wt, bd, 'src', 'libfoonathan_memory-*.a'))[0]
    exe = os.path.join(wt, 'demo_' + seed)
    r = sh('g++ -std=c++17 -O1 -g %s -I%s/include -I%s/include/foonathan/memory -I%s/%s/src %s -lpthread -o %s' % (src, wt, wt, wt, bd, lib, exe))
    if r.returncode: return None, r.stdout[-800:]
    r = sh('timeout 30 %s' % exe)
    return r.returncode, r.stdout[-300:]
for seed in seeds:
    res = {}
    sh('git checkout -- . && git clean -fdq -e _build -e _build_dbg -e out', cwd=wt)
    bd = '_build_dbg' if '_build_dbg' in open(os.path.join('/verif/seeded', seed, 'demo.cpp')).read() else '_build'
    ok, out = build(bd); res['clean_build'] = ok
    res['demo_clean_rc'], res['demo_clean_out'] = demo(seed, bd)
    r = sh('git apply /verif/seeded/%s/patch.diff' % seed, cwd=wt); res['applies'] = r.returncode == 0
    ok, out = build('_build'); res['mutated_builds'] = ok
    r = sh('ctest --test-dir _build --timeout 900 2>&1 | tail -3', cwd=wt); res['tests_pass_with_change'] = '100% tests passed' in r.stdout
    if bd != '_build': ok2, out2 = build(bd); res['mutated_builds_dbg'] = ok2
    res['demo_mutated_rc'], res['demo_mutated_out'] = demo(seed, bd)
    sh('git checkout -- .', cwd=wt)
    res['confirmed'] = bool(res['applies'] and res['mutated_builds'] and res['tests_pass_with_change'] and res['demo_clean_rc'] == 0 and res['demo_mutated_rc'] not in (0, None))
    json.dump(res, open(os.path.join('/verif/seeded', seed, 'confirm.json'), 'w'), indent=1)
    print(seed, 'CONFIRMED' if res['confirmed'] else 'NOT CONFIRMED', {k: v for k, v in res.items() if not k.endswith('_out')}, flush=True)
