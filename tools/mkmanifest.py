#!/usr/bin/env python3
"""writes MANIFEST.json from the job registry (properties with at least one quick job are claimed)"""
import json, os, sys
sys.path.insert(0, os.path.dirname(os.path.abspath(__file__)))
import registry
from manifest_text import TEXT, NOT_APPLICABLE
V = os.path.dirname(os.path.dirname(os.path.abspath(__file__)))
props = [json.loads(l)['id'] for l in open(os.path.join(V, 'properties.jsonl'))]
claimed = [p for p in props if any(p in j.props and j.tier == 'quick' for j in registry.JOBS) and p in TEXT]
checks = []
for p in claimed:
    t = TEXT[p]
    checks.append({
        'property_id': p,
        'quick_cmd': './check %s --tier quick' % p,
        'thorough_cmd': './check %s --tier thorough' % p,
        'evidence_file': 'evidence/%s.json' % p,
        'replay_cmd_template': './check %s --replay {path}' % p,
        'engine': 'ir2c+cbmc',
        'level_claimed': {'category': 'model_checking', 'text': t['text'], 'design_ref': t.get('ref', 'DESIGN.md section 7, ' + p)},
        'level_note': t['note'],
        'technique': t.get('technique', 'bounded symbolic execution of the real code: clang -O1 LLVM IR -> C (ir2c, flat memory) -> CBMC 6.11 SAT; one-step induction over representation invariants; counterexamples replayed natively'),
    })
na = [{'property_id': p, 'reason': NOT_APPLICABLE.get(p, 'no check registered yet (work in progress); see DESIGN.md')} for p in props if p not in claimed]
m = {
    'version': 1,
    'setup_cmd': 'python3 tools/setup.py',
    'hooks': {'guard': 'FOONATHAN_MEMORY_VERIF', 'enable': 'no hooks inside /repo are needed: shims under /verif/shim instantiate the real templates and are compiled with -fno-access-control; nothing in /repo is guarded by the define',
              'baseline_off_cmd': 'cmake --build /repo/_build -j16 && ctest --test-dir /repo/_build -j8 --timeout 900', 'source_commits': [], 'add_only': True},
    'engines': [{'name': 'ir2c+cbmc', 'path': 'tools/', 'serves_properties': claimed,
                 'kind_free_text': 'clang++-14 -O1 LLVM IR of /repo sources + extern "C" shims -> tools/ir2c.py (C over a flat word-addressed memory) -> cbmc 6.11 (minisat; kissat second solver in thorough) ; counterexamples replayed against natively compiled real code'}],
    'checks': checks,
    'notes': 'exit 0: all obligations discharged within the stated bounds; exit 1: VIOLATION (counterexample reproduced natively against the real code, or a memory-model violation); exit 2: machinery problem (build error, vacuous harness, failed unwinding assertion, unreproducible counterexample, or more than max(2, 10%) of the queries of a property without a verdict). A single query that reaches its time or memory cap is retried once with doubled limits; if it still has no verdict it is printed as UNDECIDED, listed under coverage.undecided in the evidence, not counted as explored, and does not fail the check. known_findings.json lists repaired (fixed) and recorded (open) defects.',
    'not_applicable': na,
}
json.dump(m, open(os.path.join(V, 'MANIFEST.json'), 'w'), indent=1)
print('claimed:', claimed)
