/* std_allocator, memory_resource_adapter and the deleters over a recording leaf (C09, C10 equality).
 *  -DCASE=1 std_allocator<T>::allocate(n)/deallocate(p, n) for T = -DSA (sa1|sa3|sa24|sa48)
 *  -DCASE=2 memory_resource_adapter: allocate(bytes, alignment) / deallocate through the memory_resource interface
 *  -DCASE=3 polymorphic deleter / deallocator with derived types of 40 and 70016 bytes, array and single deallocators
 *  -DCASE=4 std_allocator equality and copies */
#include "hooks_common.h"
#define PASTE2(a, b, c) a##b##c
#define PASTE(a, b, c) PASTE2(a, b, c)
#ifndef SA
#define SA sa24
#endif
#define SF(f) PASTE(w_, SA, _##f)
#define LOGN 4
struct call { uint64_t id, kind, count, size, align, ptr; int dealloc; };
static struct call lg[LOGN]; static int nlog;
static uint64_t maxnode;
static uint64_t next_ptr = HEAP_BASE + 0x100;
static int n_dtor;
uint64_t verif_leaf_alloc(uint64_t id, uint64_t kind, uint64_t count, uint64_t size, uint64_t align)
{
    uint64_t p = 0;
    if (nondet_u8() != 0) { p = next_ptr; next_ptr += 0x40; }
    if (nlog < LOGN) { lg[nlog].id = id; lg[nlog].kind = kind; lg[nlog].count = count; lg[nlog].size = size; lg[nlog].align = align; lg[nlog].ptr = p; lg[nlog].dealloc = 0; nlog++; }
    return p;
}
void verif_leaf_dealloc(uint64_t id, uint64_t kind, uint64_t p, uint64_t count, uint64_t size, uint64_t align)
{
    if (nlog < LOGN) { lg[nlog].id = id; lg[nlog].kind = kind; lg[nlog].count = count; lg[nlog].size = size; lg[nlog].align = align; lg[nlog].ptr = p; lg[nlog].dealloc = 1; nlog++; }
}
uint64_t verif_leaf_try_dealloc(uint64_t id, uint64_t kind, uint64_t p, uint64_t count, uint64_t size, uint64_t align) { verif_leaf_dealloc(id, kind, p, count, size, align); return 1; }
uint64_t verif_leaf_max(uint64_t id, uint64_t which) { (void)id; return which == 0 ? maxnode : ~UINT64_C(0); }
void verif_tracker(uint64_t what, uint64_t p, uint64_t c, uint64_t s, uint64_t a) { (void)what; (void)p; (void)c; (void)s; (void)a; }
void verif_mutex(uint64_t id, uint64_t lock) { (void)id; (void)lock; ASSERT(0, "no mutex expected"); }
void verif_dtor(uint64_t id) { (void)id; n_dtor++; }

void harness(void)
{
    HAVOC_HEAP();
    w_install_handlers();
    uint64_t O = HEAP_BASE, O2 = HEAP_BASE + 0x40, LEAF = HEAP_BASE + 0x80, LEAF2 = HEAP_BASE + 0x90, OBJ = HEAP_BASE + 0xa0;
    maxnode = nondet_u64();
#if CASE == 1
    uint64_t n = nondet_u8(); ASSUME(n >= 1 && n <= 5);
    uint64_t S = SF(size)(), A = SF(align)();
    SF(ctor)(O, LEAF);
    CLEAR_EXC();
    uint64_t p = SF(allocate)(O, n);
    if (!EXC) {
        ASSERT(p != 0 && nlog == 1, "C09: std_allocator::allocate issues exactly one downstream request");
        ASSERT(lg[0].kind == (n == 1 ? 0 : 1), "C09: one object is a node allocation, several are an array allocation");
        ASSERT(lg[0].size == S && lg[0].align == A && (n == 1 || lg[0].count == n), "C09: element size, alignment and count forwarded");
        SF(deallocate)(O, p, n);
        ASSERT(nlog == 2 && lg[1].dealloc, "C09: one downstream release");
        ASSERT(lg[1].kind == lg[0].kind && lg[1].ptr == p && lg[1].size == S && lg[1].align == A && (n == 1 || lg[1].count == n), "C09: release repeats the node/array decision and the parameters");
    } else ASSERT(nlog == 1 && lg[0].ptr == 0, "C09: failure propagates the leaf's failure");
#elif CASE == 2
    ASSUME(maxnode >= 1 && maxnode <= 4096);
    uint64_t bytes = nondet_u16(), k = nondet_u8(); ASSUME(bytes >= 1 && k <= 6);
    uint64_t al = UINT64_C(1) << k;
    w_mra_ctor(O);
    CLEAR_EXC();
    uint64_t p = w_mra_allocate(O, bytes, al);
    if (!EXC) {
        ASSERT(p != 0 && nlog == 1, "C09: one downstream request");
        if (bytes <= maxnode) ASSERT(lg[0].kind == 0 && lg[0].size == bytes, "C09: requests up to max_node_size are node allocations of exactly that size");
        else { ASSERT(lg[0].kind == 1 && lg[0].size == maxnode, "C09: larger requests are arrays of max_node_size elements");
               ASSERT(lg[0].count * maxnode >= bytes && (lg[0].count - 1) * maxnode < bytes, "C09: ceil(bytes / max_node_size) elements"); }
        ASSERT(lg[0].align == al, "C09: alignment forwarded");
        w_mra_deallocate(O, p, bytes, al);
        ASSERT(nlog == 2 && lg[1].dealloc && lg[1].kind == lg[0].kind && lg[1].ptr == p && lg[1].size == lg[0].size && lg[1].align == al && (lg[0].kind == 0 || lg[1].count == lg[0].count), "C09: release repeats the node/array decision and parameters of the allocation");
    }
#elif CASE == 3
    uint8_t which = nondet_u8(); ASSUME(which < 5);
    if (which == 0) {
        w_poly_dealloc_big(LEAF, OBJ);        /* deallocator: no destructor call, memory released with the derived type's size */
        ASSERT(nlog == 1 && lg[0].dealloc && lg[0].kind == 0 && lg[0].ptr == OBJ, "C09: polymorphic deallocator releases the object as one node");
        ASSERT(lg[0].size == w_sizeof_big() && lg[0].align == 8, "C09: polymorphic deallocator passes sizeof/alignof of the derived type (70016 bytes)");
    } else if (which == 1) {
        w_make_obj_small(OBJ);
        w_poly_delete_small(LEAF, OBJ);
        ASSERT(n_dtor == 1, "C20: polymorphic deleter destroys the object exactly once");
        ASSERT(nlog == 1 && lg[0].dealloc && lg[0].size == w_sizeof_small() && lg[0].align == 8 && lg[0].ptr == OBJ, "C09: polymorphic deleter releases with the derived size and alignment");
    } else if (which == 2) {
        uint64_t n = nondet_u8(); ASSUME(n >= 1);
        w_array_delete(LEAF, OBJ, n);
        ASSERT(nlog == 1 && lg[0].dealloc && lg[0].kind == 1 && lg[0].count == n && lg[0].size == 24 && lg[0].align == 8 && lg[0].ptr == OBJ, "C09: array deallocator releases count x sizeof(T)");
    } else if (which == 3) {
        w_single_dealloc(LEAF, OBJ);
        ASSERT(nlog == 1 && lg[0].dealloc && lg[0].kind == 0 && lg[0].size == 48 && lg[0].align == 16 && lg[0].ptr == OBJ, "C09: single deallocator releases one node of sizeof(T), alignof(T)");
    } else {
        /* the deleter for a derived type larger than 65535 bytes: the stored size must not be truncated.
           (only the constructor's bookkeeping is exercised: operator() would run the 70016-byte object's destructor) */
        ASSERT(w_poly_deleter_big_size(LEAF) == w_sizeof_big(), "C09: allocator_polymorphic_deleter remembers sizeof(T) of a type above 64 KiB");
    }
#elif CASE == 4
    sa24_ctor_dummy:;
    w_sa24_ctor(O, LEAF); w_sa24_ctor(O2, LEAF2);
    ASSERT(w_sa_equal(O, O) == 1, "C10: a std_allocator equals itself");
    ASSERT(w_sa_equal(O, O2) == 0, "C10: std_allocators referring to different stateful allocator objects are unequal");
    w_sa_copy(O2, O);
    ASSERT(w_sa_equal(O, O2) == 1, "C10: a copy refers to the same allocator object and compares equal");
    CLEAR_EXC();
    uint64_t p = w_sa24_allocate(O, 1);
    if (!EXC) { w_sa24_deallocate(O2, p, 1); ASSERT(nlog == 2 && lg[1].id == lg[0].id && lg[1].ptr == p, "C10: memory from one may be released through an equal one (same leaf)"); }
#endif
    WITNESS_END();
}
