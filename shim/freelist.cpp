// shim group "freelist": every member of free_memory_list / ordered_free_memory_list / small_free_memory_list
#include "shim_common.hpp"
#include <foonathan/memory/detail/free_list.hpp>
#include <foonathan/memory/detail/small_free_list.hpp>
#include <foonathan/memory/detail/utility.hpp>
#include <foonathan/memory/debugging.hpp>
#include <foonathan/memory/error.hpp>

using namespace foonathan::memory;
using namespace foonathan::memory::detail;

// invalid-pointer handler: forwards to the harness
extern "C" void verif_invalid_pointer(const char* name, const void* alloc, const void* ptr);
static void ip_handler(const allocator_info& info, const void* ptr) noexcept
{
    verif_invalid_pointer(info.name, info.allocator, ptr);
}
W void w_install_handlers() { set_invalid_pointer_handler(ip_handler); }

#define LIST(P, T)                                                                                  \
    W ulong w_##P##_sizeof() { return sizeof(T); }                                                  \
    W void w_##P##_ctor(void* o, ulong ns) { ::new (o) T(ns); }                                     \
    W void w_##P##_ctor_mem(void* o, ulong ns, void* m, ulong sz) { ::new (o) T(ns, m, sz); }       \
    W void w_##P##_move_ctor(void* o, void* from) { ::new (o) T(detail::move(*static_cast<T*>(from))); } \
    W void w_##P##_move_assign(void* o, void* from) { *static_cast<T*>(o) = detail::move(*static_cast<T*>(from)); } \
    W void w_##P##_swap(void* a, void* b) { swap(*static_cast<T*>(a), *static_cast<T*>(b)); }       \
    W void w_##P##_insert(void* o, void* m, ulong sz) { static_cast<T*>(o)->insert(m, sz); }        \
    W void* w_##P##_allocate(void* o) { return static_cast<T*>(o)->allocate(); }                    \
    W void* w_##P##_allocate_n(void* o, ulong n) { return static_cast<T*>(o)->allocate(n); }        \
    W void w_##P##_deallocate(void* o, void* p) { static_cast<T*>(o)->deallocate(p); }              \
    W void w_##P##_deallocate_n(void* o, void* p, ulong n) { static_cast<T*>(o)->deallocate(p, n); } \
    W ulong w_##P##_capacity(void* o) { return static_cast<T*>(o)->capacity(); }                    \
    W ulong w_##P##_node_size(void* o) { return static_cast<T*>(o)->node_size(); }                  \
    W ulong w_##P##_empty(void* o) { return static_cast<T*>(o)->empty(); }                          \
    W ulong w_##P##_alignment(void* o) { return static_cast<T*>(o)->alignment(); }                  \
    W ulong w_##P##_usable_size(void* o, ulong s) { return static_cast<T*>(o)->usable_size(s); }    \
    W ulong w_##P##_min_block_size(ulong ns, ulong n) { return T::min_block_size(ns, n); }

LIST(fl, free_memory_list)
LIST(ofl, ordered_free_memory_list)
LIST(sfl, small_free_memory_list)

W ulong w_off_fl_first() { return offsetof(free_memory_list, first_); }
W ulong w_off_fl_node_size() { return offsetof(free_memory_list, node_size_); }
W ulong w_off_fl_capacity() { return offsetof(free_memory_list, capacity_); }
W ulong w_off_ofl_begin() { return offsetof(ordered_free_memory_list, begin_proxy_); }
W ulong w_off_ofl_end() { return offsetof(ordered_free_memory_list, end_proxy_); }
W ulong w_off_ofl_node_size() { return offsetof(ordered_free_memory_list, node_size_); }
W ulong w_off_ofl_capacity() { return offsetof(ordered_free_memory_list, capacity_); }
W ulong w_off_ofl_last_dealloc() { return offsetof(ordered_free_memory_list, last_dealloc_); }
W ulong w_off_ofl_last_dealloc_prev() { return offsetof(ordered_free_memory_list, last_dealloc_prev_); }

W ulong w_off_sfl_base() { return offsetof(small_free_memory_list, base_); }
W ulong w_off_sfl_node_size() { return offsetof(small_free_memory_list, node_size_); }
W ulong w_off_sfl_capacity() { return offsetof(small_free_memory_list, capacity_); }
W ulong w_off_sfl_alloc_chunk() { return offsetof(small_free_memory_list, alloc_chunk_); }
W ulong w_off_sfl_dealloc_chunk() { return offsetof(small_free_memory_list, dealloc_chunk_); }
W ulong w_off_chunk_prev() { return offsetof(chunk_base, prev); }
W ulong w_off_chunk_next() { return offsetof(chunk_base, next); }
W ulong w_off_chunk_first_free() { return offsetof(chunk_base, first_free); }
W ulong w_off_chunk_capacity() { return offsetof(chunk_base, capacity); }
W ulong w_off_chunk_no_nodes() { return offsetof(chunk_base, no_nodes); }
W ulong w_chunk_memory_offset() { return chunk_memory_offset; }
W ulong w_chunk_max_nodes() { return chunk_max_nodes; }
W ulong w_sfl_find_chunk(void* o, ulong n) { return static_cast<small_free_memory_list*>(o)->find_chunk(n); }
