// memory_pool_collection<node_pool, log2_buckets>::allocate_array returns nullptr (release) / trips an internal assertion (debug)
// when count * node_size spans more bucket nodes than the second reservation provides: the reservation is made for
// count * node_size bytes of the REQUESTED node size, but the bucket's nodes are larger (log2 rounding), so the block
// yields fewer nodes than the array needs.
#include <foonathan/memory/memory_pool_collection.hpp>
#include <foonathan/memory/allocator_traits.hpp>
#include <cstdio>
#include <unistd.h>
using namespace foonathan::memory;
int main()
{
    alarm(10);
    memory_pool_collection<node_pool, log2_buckets> pool(4096, 45000);
    using traits = allocator_traits<decltype(pool)>;
    void* p = nullptr;
    try { p = traits::allocate_array(pool, 2, 3000, 8); }
    catch (std::bad_alloc&) { std::puts("threw (acceptable)"); return 0; }
    if (!p) { std::puts("FAIL: throwing allocate_array returned nullptr"); return 1; }
    std::puts("ok"); return 0;
}
