// shim group "sflk": leaf kernels of src/detail/small_free_list.cpp that live in its anonymous namespace and are therefore
// unreachable from any other translation unit.  The real source file of the current tree is compiled INTO this unit (the
// class is renamed for this unit only so that its out-of-line members do not clash with the library's own objects when
// the IR modules are linked); nothing is copied or rewritten.
#include "shim_common.hpp"
#define small_free_memory_list small_free_memory_list_kernel_unit
#include "detail/small_free_list.cpp"      // resolved through -I <repo>/src

W void w_insert_chunks(void* list, void* begin, void* end)
{
    insert_chunks(static_cast<chunk_base*>(list), static_cast<chunk_base*>(begin), static_cast<chunk_base*>(end));
}
W ulong w_k_off_prev() { return offsetof(chunk_base, prev); }
W ulong w_k_off_next() { return offsetof(chunk_base, next); }
W ulong w_k_chunk_base_size() { return sizeof(chunk_base); }
