#include <foonathan/memory/detail/small_free_list.hpp>
#include <cstdio>
#include <cstdlib>
using namespace foonathan::memory::detail;
int main() {
    alignas(16) static char block[32 + 16 * 4];
    alignas(16) static char other[64];
    small_free_memory_list list(4, block, sizeof block);   // exactly one chunk
    void* p = list.allocate(); (void)p;
    std::fprintf(stderr, "releasing a foreign pointer\n");
    list.deallocate(other + 16);   // not from this list: must reach the invalid pointer handler (aborts)
    std::fprintf(stderr, "returned\n");
}
