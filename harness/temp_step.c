/* temporary_allocator / temporary_stack / the global stack list with its thread-local bookkeeping (C14, TEMPORARY_STACK_MODE 2).
 *  -DCASE=1 sequential: nested temporary_allocators restore the stack exactly (allocations may grow the stack)
 *  -DCASE=2 API-granularity schedule over 2 threads: each step (thread, action) chosen by the solver from
 *           {use, initializer scope, thread exit}; thread_local variables are per-thread copies (ir_tid), thread-local
 *           destructors run at thread exit, the nifty counters run at program exit on thread 0.
 * Heap (default_allocator -> std::malloc) = recording OS hook with fixed slots. */
#include "hooks_common.h"
#ifndef STEPS
#define STEPS 3
#endif
#ifndef TSEQ
#define TSEQ 2
#endif
#ifndef ASEQ
#define ASEQ 0
#endif
#ifndef SLOTSZ
#define SLOTSZ 96
#endif
#ifndef NSLOTS
#define NSLOTS 4
#endif
static int slot_used[NSLOTS], n_os_alloc, n_os_free;
uint64_t verif_os_alloc(uint64_t size, uint64_t al)
{
    (void)al; n_os_alloc++;
    ASSUME(size <= SLOTSZ);                            /* bound: block / object sizes of this harness */
    for (int i = 0; i < NSLOTS; ++i) if (!slot_used[i]) { slot_used[i] = 1; return HEAP_BASE + 0x80 + (uint64_t)i * SLOTSZ; }
    ASSUME(0);                                         /* bound: number of simultaneously held heap objects */
    return 0;
}
void verif_os_free(uint64_t p, uint64_t size, uint64_t al)
{
    (void)size; (void)al; n_os_free++;
    int i = (int)((p - HEAP_BASE - 0x80) / SLOTSZ);
    ASSERT(p >= HEAP_BASE + 0x80 && i < NSLOTS && slot_used[i] && p == HEAP_BASE + 0x80 + (uint64_t)i * SLOTSZ, "C05: heap memory is released exactly once, as obtained");
    if (i >= 0 && i < NSLOTS) slot_used[i] = 0;
}
static int held_slots(void) { int c = 0; for (int i = 0; i < NSLOTS; ++i) c += slot_used[i]; return c; }

void harness(void)
{
    HAVOC_HEAP();
    w_install_handlers();
    uint64_t TA1 = HEAP_BASE, TA2 = HEAP_BASE + 0x30, INIT = HEAP_BASE + 0x60;
    ASSERT(w_sizeof_temporary_allocator() <= 0x30 && w_sizeof_temporary_stack() <= SLOTSZ, "harness slots cover the objects");
#if CASE == 1
    ir_tid = 0;
    CLEAR_EXC();
    uint64_t st = w_get_temporary_stack(64);
    ASSUME(!EXC && st != 0);
    uint64_t cur0 = w_ts_cur(st), blk0 = w_ts_blocks(st);
    w_ta_ctor_stack(TA1, st);
    uint64_t s1 = nondet_u8(), s2 = nondet_u8(), s3 = nondet_u8(); ASSUME(s1 <= 40 && s2 <= 40 && s3 <= 40);
    uint64_t p1 = w_ta_allocate(TA1, s1, 8); ASSUME(!EXC);
    uint64_t cur1 = w_ts_cur(st), blk1 = w_ts_blocks(st);
    w_ta_ctor_stack(TA2, st);                                   /* nested */
    ASSERT(w_ta_is_active(TA2) == 1 && w_ta_is_active(TA1) == 0, "C14: the innermost temporary_allocator is the active one");
    uint64_t p2 = w_ta_allocate(TA2, s2, 8); ASSUME(!EXC);
    uint64_t p3 = w_ta_allocate(TA2, s3, 16); ASSUME(!EXC);
    ASSERT(p2 != 0 && p3 != 0 && p1 != 0 && (p3 & 15) == 0, "C02/C03: temporary allocations are non-null and aligned");
    ASSERT(p1 + s1 <= p2 || p2 + s2 <= p1, "C01: temporary allocations do not overlap");
    if (nondet_u8() & 1) w_ta_shrink_to_fit(TA2);
    w_ta_dtor(TA2);
    ASSERT(w_ts_cur(st) == cur1 && w_ts_blocks(st) == blk1, "C14: destroying the nested temporary_allocator leaves the stack exactly as at its construction");
    ASSERT(w_ta_is_active(TA1) == 1, "C14: the outer allocator is active again");
    w_ta_dtor(TA1);
    ASSERT(w_ts_cur(st) == cur0 && w_ts_blocks(st) == blk0, "C14: destroying the outer temporary_allocator restores the thread's stack exactly");
    ASSERT(w_ts_top_alloc(st) == 0, "C14: no active allocator remains");
#else
    uint64_t held[2] = {0, 0}; int live[2] = {1, 1}, used[2] = {0, 0};
    for (int step = 0; step < STEPS; ++step) {
        /* which thread runs each step is a constant of the query (-DTSEQ, one bit per step): the registry enumerates the
           thread and action sequences (-DASEQ, one base-3 digit per step: 0 use, 1 initializer scope, 2 thread exit) */
        static const int pow3[6] = {1, 3, 9, 27, 81, 243};
        uint8_t t = (TSEQ >> step) & 1, act = (uint8_t)((ASEQ / pow3[step]) % 3);
        if (!live[t]) continue;                       /* a finished thread takes no further steps */
        ir_tid = t;
        CLEAR_EXC();
        if (act == 0) {                                  /* the thread uses a temporary allocator */
            uint64_t st = w_get_temporary_stack(64); ASSUME(!EXC);   /* first use creates or adopts the thread's stack */
            w_ta_ctor_stack(TA1, st);
            held[t] = st; used[t] = 1;
            (void)w_ta_allocate(TA1, 8, 8);
            w_ta_dtor(TA1);
            ASSERT(w_ts_in_use(st) == 1, "C14: the stack a live thread is using is marked in use");
        } else if (act == 1) {                           /* a temporary_stack_initializer scope in this thread */
            w_init_ctor(INIT, 64); ASSUME(!EXC);
            w_init_dtor(INIT);
            /* what the thread will use from now on (its thread-local stack pointer) */
            held[t] = w_get_temporary_stack(64); used[t] = 1;
            ASSERT(w_ts_in_use(held[t]) == 1, "C14: after an initializer scope ended the thread's stack is still marked in use while the thread keeps using it");
        } else {                                         /* the thread exits: its thread-local destructors run */
            ir_thread_exit(t);
            live[t] = 0; held[t] = 0;
        }
        if (live[0] && live[1] && held[0] && held[1])
            ASSERT(held[0] != held[1], "C14: no two live threads use the same temporary stack");
    }
#ifdef CHECK_EXIT
    /* program exit: remaining worker exits, then the nifty counters of the (two) translation units run on thread 0 */
    if (live[1]) ir_thread_exit(1);
    ir_tid = 0;
    w_nifty_dtor(); w_nifty_dtor();
    ASSERT(held_slots() == 0, "C14: everything is freed at program exit");
#endif
#endif
    WITNESS_END();
}
