#!/bin/sh
# run every claimed quick check once; summary lines only
cd "$(dirname "$0")/.."
for p in $(python3 -c "import json;print(' '.join(c['property_id'] for c in json.load(open('MANIFEST.json'))['checks']))"); do
  /usr/bin/time -f "$p wall=%es" ./check $p --tier ${1:-quick} 2>&1 | grep -E "^(C[0-9]+:|VIOLATION|KNOWN|INCONCLUSIVE|ERROR|UNDECIDED|VACUOUS|C[0-9]+ wall)" | cut -c1-300
done
