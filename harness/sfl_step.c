/* One-step inductive harness for small_free_memory_list (C01, C02, C04, C12, C16, C17-pool part).
 * Pre-state: ANY list satisfying Inv over <= NCH chunks of <= NN nodes each (arbitrary free chains), chunk ring
 * through base_ sorted by address, alloc_chunk_/dealloc_chunk_ anywhere on the ring. */
#include "verif.h"

#ifndef NCH
#define NCH 2
#endif
#ifndef NN
#define NN 3
#endif
#ifndef NS_MIN
#define NS_MIN 1
#endif
#ifndef NS_MAX
#define NS_MAX 4
#endif
#ifndef CFG_FILL
#define CFG_FILL 0
#endif
#ifndef CFG_PTR
#define CFG_PTR 0
#endif
#ifndef CFG_DOUBLE
#define CFG_DOUBLE 0
#endif

#define OP_ALLOC 1
#define OP_DEALLOC 2
#define OP_INSERT 5
#define OP_CTOR 6
#define OP_MOVE_CTOR 7
#define OP_MOVE_ASSIGN 8
#define OP_SWAP 9
#define OP_BAD_OUTSIDE 11    /* C16: pointer outside every chunk */
#define OP_BAD_STRIDE 12     /* C16: pointer inside a chunk but not on a node boundary */
#define OP_BAD_DOUBLE 13     /* C16: node already on the chunk's free chain */
#define OP_INSERT_MULTI 14   /* a block that yields a full 255-node chunk plus a remainder chunk, inserted below / above / into an empty list */

#define LSIZE 56
#define CHDR 32              /* chunk_memory_offset, asserted against the real constant below */

static uint64_t ns;
static uint64_t CH[NCH];      /* chunk addresses, ascending */
static uint64_t nn[NCH];      /* nodes per chunk */
static uint64_t nch;          /* number of chunks on the ring */
static int handler_calls; static uint64_t handler_ptr;
static uint64_t snap_cap, snap_ff[NCH], snap_ccap[NCH], snap_prev[NCH], snap_next[NCH];

static uint64_t mul_small(uint64_t k, uint64_t v)
{
    uint64_t r = 0;
    for (int i = 0; i <= NN; ++i) if ((uint64_t)i < k) r += v;
    return r;
}
static uint64_t node_addr(int c, uint64_t i) { return CH[c] + CHDR + mul_small(i, ns); }
static int disjoint(uint64_t a, uint64_t an, uint64_t b, uint64_t bn) { return a + an <= b || b + bn <= a; }

#define C_PREV(c) H64((c) + w_off_chunk_prev())
#define C_NEXT(c) H64((c) + w_off_chunk_next())
#define C_FF(c) H8((c) + w_off_chunk_first_free())
#define C_CAP(c) H8((c) + w_off_chunk_capacity())
#define C_NN(c) H8((c) + w_off_chunk_no_nodes())
#define L_BASE(L) ((L) + w_off_sfl_base())
#define L_NS(L) H64((L) + w_off_sfl_node_size())
#define L_CAP(L) H64((L) + w_off_sfl_capacity())
#define L_AC(L) H64((L) + w_off_sfl_alloc_chunk())
#define L_DC(L) H64((L) + w_off_sfl_dealloc_chunk())

/* establish Inv for list L over chunks [c0, c1) of the global chunk table; free masks returned in m[] */
static void establish(uint64_t L, int c0, int c1, uint32_t* m)
{
    uint64_t base = L_BASE(L), total = 0;
    /* ring: base -> CH[c0] -> ... -> CH[c1-1] -> base, doubly linked; base is an empty pseudo chunk */
    uint64_t prev = base;
    for (int c = 0; c < NCH; ++c) {
        m[c] = 0;
        if (c >= c0 && c < c1) {
            HS64(prev + w_off_chunk_next(), CH[c]);
            HS64(CH[c] + w_off_chunk_prev(), prev);
            prev = CH[c];
            /* arbitrary free chain: cap distinct indices < nn, ending in the sentinel index nn */
            uint64_t cap = nondet_u8(); ASSUME(cap <= nn[c]);
            uint8_t q[NN];
            for (int i = 0; i < NN; ++i) {
                q[i] = nondet_u8();
                if ((uint64_t)i < cap) { ASSUME(q[i] < nn[c] && !(m[c] >> q[i] & 1)); m[c] |= 1u << q[i]; }
            }
            HS8(CH[c] + w_off_chunk_first_free(), cap ? q[0] : (uint8_t)nn[c]);
            HS8(CH[c] + w_off_chunk_capacity(), (uint8_t)cap);
            HS8(CH[c] + w_off_chunk_no_nodes(), (uint8_t)nn[c]);
            for (int i = 0; i < NN; ++i)
                if ((uint64_t)i < cap) HS8(node_addr(c, q[i]), (uint64_t)(i + 1) < cap ? q[i + 1] : (uint8_t)nn[c]);
            total += cap;
        }
    }
    HS64(prev + w_off_chunk_next(), base);
    HS64(base + w_off_chunk_prev(), prev);
    HS8(base + w_off_chunk_first_free(), 0); HS8(base + w_off_chunk_capacity(), 0); HS8(base + w_off_chunk_no_nodes(), 0);
    HS64(L + w_off_sfl_node_size(), ns);
    HS64(L + w_off_sfl_capacity(), total);
    /* the two cache pointers are anywhere on the ring, base included */
    uint8_t ai = nondet_u8(), di = nondet_u8();
    uint64_t ac = base, dc = base;
    for (int c = 0; c < NCH; ++c) if (c >= c0 && c < c1) { if (ai == c + 1) ac = CH[c]; if (di == c + 1) dc = CH[c]; }
    HS64(L + w_off_sfl_alloc_chunk(), ac);
    HS64(L + w_off_sfl_dealloc_chunk(), dc);
}

/* independent walk; asserts Inv when do_assert, returns 1 if Inv holds; masks in m[] */
static int check_cache = 1;   /* cleared for moved-from objects: their cache hints are dead values, they may only be destroyed or assigned to */
static int walk(uint64_t L, int c0, int c1, uint32_t* m, int do_assert)
{
    int ok = 1;
#define CHK(c, msg) do { if (!(c)) ok = 0; if (do_assert) ASSERT((c), msg); } while (0)
    uint64_t base = L_BASE(L), total = 0, prev = base, cur = C_NEXT(base);
    int ac_seen = L_AC(L) == base, dc_seen = L_DC(L) == base;
    CHK(C_FF(base) == 0 && C_CAP(base) == 0 && C_NN(base) == 0, "Inv: base_ stays an empty pseudo chunk");
    CHK(L_NS(L) == ns, "Inv: node_size_ unchanged");
    for (int c = 0; c < NCH; ++c) {
        m[c] = 0;
        if (c >= c0 && c < c1) {
            CHK(cur == CH[c], "Inv: chunk ring lists the chunks in ascending address order");
            if (cur != CH[c]) return 0;
            CHK(C_PREV(cur) == prev, "Inv: chunk ring is doubly linked");
            CHK(C_NN(cur) == nn[c], "Inv: no_nodes of a chunk never changes");
            if (L_AC(L) == cur) ac_seen = 1;
            if (L_DC(L) == cur) dc_seen = 1;
            uint64_t idx = C_FF(cur), n = 0; int done = 0;
            for (int i = 0; i <= NN; ++i) {
                if (!done) {
                    if (idx == nn[c]) done = 1;
                    else {
                        CHK(idx < nn[c], "Inv: free chain index inside the chunk");
                        if (idx >= nn[c]) return 0;
                        CHK(!(m[c] >> idx & 1), "Inv: no node twice on a chunk's free chain");
                        m[c] |= 1u << idx; ++n;
                        idx = H8(node_addr(c, idx));
                    }
                }
            }
            CHK(done, "Inv: free chain ends in the sentinel index within no_nodes steps");
            CHK(C_CAP(cur) == n, "Inv: chunk capacity equals the length of its free chain");
            total += n;
            prev = cur; cur = C_NEXT(cur);
        }
    }
    CHK(cur == base, "Inv: chunk ring closes at base_");
    CHK(C_PREV(base) == prev, "Inv: base_.prev is the last chunk");
    CHK(L_CAP(L) == total, "Inv: capacity_ is the sum of the chunk capacities");
    if (check_cache) {
        CHK(ac_seen, "Inv: alloc_chunk_ is on the ring");
        CHK(dc_seen, "Inv: dealloc_chunk_ is on the ring");
    }
    return ok;
}

static uint64_t g_L;
void verif_invalid_pointer(uint64_t name, uint64_t alloc, uint64_t ptr)
{
    (void)name; (void)alloc;
    handler_calls++; handler_ptr = ptr;
#if OP >= OP_BAD_OUTSIDE && OP <= OP_BAD_DOUBLE
    /* C16: reported before the allocator's abstract state changed (free masks, capacities); the dealloc_chunk_
       hint and fill bytes are not part of the observable state */
    /* observable bookkeeping: list capacity, ring links and the header of every chunk (first_free, capacity,
       no_nodes).  Not compared: the dealloc_chunk_ hint and the debug-fill bytes written into the offending range
       (with fill enabled an off-stride release scribbles the freed pattern over the neighbouring node before any
       check can run; that is the fill, not an allocator state transition). */
    int ok = L_CAP(g_L) == snap_cap;
    for (int c = 0; c < NCH; ++c) if ((uint64_t)c < nch)
        ok = ok && C_FF(CH[c]) == snap_ff[c] && C_CAP(CH[c]) == snap_ccap[c] && C_NN(CH[c]) == nn[c]
                && C_PREV(CH[c]) == snap_prev[c] && C_NEXT(CH[c]) == snap_next[c];
    ASSERT(ok, "C16: invalid release reported before the allocator state changed");
    ASSERT(ptr == handler_ptr, "C16: handler receives the offending pointer");
#ifdef WITNESS
    ASSERT(0, "WITNESS: invalid-pointer handler reached");
#endif
    ASSUME(0);   /* the handler ends the program */
#endif
}

void harness(void)
{
    HAVOC_HEAP();
    w_install_handlers();
    ASSERT(w_chunk_memory_offset() == CHDR, "harness constant CHDR equals chunk_memory_offset");
    ASSERT(w_sfl_sizeof() == LSIZE, "harness constant LSIZE equals sizeof(small_free_memory_list)");
#if NS_MIN == NS_MAX
    ns = NS_MIN;                      /* one query per node size: a constant lets divisions by node_size_ fold */
#else
    ns = nondet_u8(); ASSUME(ns >= NS_MIN && ns <= NS_MAX);
#endif
    nch = nondet_u8(); ASSUME(nch <= NCH);
    for (int c = 0; c < NCH; ++c) { nn[c] = nondet_u8(); ASSUME(nn[c] >= 1 && nn[c] <= NN); }
#ifndef LAY
#define LAY 0
#endif
#ifndef GAP
#define GAP 0
#endif
    /* compile-time layout (one query per layout): objects below / between / above the chunks; chunks at a fixed
       stride (adjacent up to alignment when chunk 0 has NN nodes) or a further 16 bytes apart */
    uint64_t csz[NCH];
    for (int c = 0; c < NCH; ++c) csz[c] = (CHDR + mul_small(NN, ns) + 7) & ~UINT64_C(7);
    uint64_t gap = GAP ? 16 : 0, L, L2;
    if (LAY == 0)      { L = HEAP_BASE; L2 = L + LSIZE; CH[0] = L2 + LSIZE; for (int c = 1; c < NCH; ++c) CH[c] = CH[c - 1] + csz[c - 1] + gap; }
    else if (LAY == 1) { CH[0] = HEAP_BASE; L = CH[0] + csz[0]; L2 = L + LSIZE; CH[1] = L2 + LSIZE; for (int c = 2; c < NCH; ++c) CH[c] = CH[c - 1] + csz[c - 1] + gap; }
    else               { CH[0] = HEAP_BASE; for (int c = 1; c < NCH; ++c) CH[c] = CH[c - 1] + csz[c - 1] + gap; L = CH[NCH - 1] + csz[NCH - 1]; L2 = L + LSIZE; }
    ASSUME(IN_HEAP(L, LSIZE) && IN_HEAP(L2, LSIZE));
    for (int c = 0; c < NCH; ++c) ASSUME(IN_HEAP(CH[c], csz[c]));
    g_L = L;

    uint64_t wa = HEAP_BASE + (uint64_t)nondet_u8(); ASSUME(IN_HEAP(wa, 1));
    uint8_t wv;
    int w_in_obj = !disjoint(wa, 1, L, LSIZE) || !disjoint(wa, 1, L2, LSIZE);
    int w_in_hdr = 0, w_in_link = 0, w_c = -1; uint64_t w_i = 0;
    for (int c = 0; c < NCH; ++c) {
        if (wa >= CH[c] && wa < CH[c] + CHDR) w_in_hdr = 1;
        if (wa >= CH[c] && wa < CH[c] + 16) w_in_link = 1;   /* prev/next words are re-pointed by moves */
        for (int i = 0; i < NN; ++i)
            if ((uint64_t)i < nn[c] && wa >= node_addr(c, i) && wa < node_addr(c, i) + ns) { w_c = c; w_i = i; }
    }
    uint32_t pre[NCH], post[NCH];

#if OP == OP_CTOR
    ASSUME(!w_in_obj); wv = H8(wa);
    w_sfl_ctor(L, ns);
    nch = 0;
    walk(L, 0, 0, post, 1);
    ASSERT(w_sfl_capacity(L) == 0 && w_sfl_empty(L) == 1 && w_sfl_node_size(L) == ns, "ctor: observers");
    ASSERT(H8(wa) == wv, "ctor: writes nothing outside the object");
#elif OP == OP_ALLOC
    establish(L, 0, (int)nch, pre);
    ASSUME(L_CAP(L) >= 1);
    ASSUME(!w_in_obj && !w_in_hdr && !(w_c >= 0 && (uint64_t)w_c < nch && (pre[w_c] >> w_i & 1)));
    wv = H8(wa);
    uint64_t p = w_sfl_allocate(L);
    walk(L, 0, (int)nch, post, 1);
    int found = 0;
    for (int c = 0; c < NCH; ++c) for (int i = 0; i < NN; ++i)
        if ((uint64_t)c < nch && (uint64_t)i < nn[c] && p == node_addr(c, i)) {
            found = 1;
            ASSERT(pre[c] >> i & 1, "allocate: result was a free node (not a live allocation)");
            ASSERT(post[c] == (pre[c] & ~(1u << i)), "allocate: removes exactly the returned node from its chunk");
            for (int d = 0; d < NCH; ++d) if (d != c && (uint64_t)d < nch) ASSERT(post[d] == pre[d], "allocate: other chunks unchanged");
        }
    ASSERT(found, "allocate: result is a node of a chunk of this list");
    ASSERT(H8(wa) == wv, "allocate: live nodes, chunk headers and foreign memory untouched");
#if CFG_FILL
    { uint64_t j = nondet_u8(); ASSUME(j < ns); ASSERT(H8(p + j) == 0xCD, "allocate: node carries the new-memory pattern"); }
#endif
    ASSERT(handler_calls == 0, "allocate: no invalid-pointer report");
    if (L_CAP(L) != 0) ASSERT(w_sfl_find_chunk(L, 1) == 1, "find_chunk(1) succeeds while the list is not empty");
#elif OP == OP_DEALLOC
    establish(L, 0, (int)nch, pre);
    ASSUME(nch >= 1);
    uint8_t c = nondet_u8(), i = nondet_u8();
    ASSUME(c < nch && i < nn[c < NCH ? c : 0] && !(pre[c < NCH ? c : 0] >> i & 1));     /* a live node */
    ASSUME(!w_in_obj && !w_in_hdr && !(w_c == c && w_i == i) && !(w_c >= 0 && (uint64_t)w_c < nch && (pre[w_c] >> w_i & 1)));
    wv = H8(wa);
    w_sfl_deallocate(L, node_addr(c, i));
    walk(L, 0, (int)nch, post, 1);
    for (int d = 0; d < NCH; ++d) if ((uint64_t)d < nch)
        ASSERT(post[d] == (d == c ? (pre[d] | 1u << i) : pre[d]), "deallocate: adds exactly the released node to its chunk");
    ASSERT(H8(wa) == wv, "deallocate: other live nodes, chunk headers and foreign memory untouched");
#if CFG_FILL
    if (ns > 1) { uint64_t j = nondet_u8(); ASSUME(j >= 1 && j < ns); ASSERT(H8(node_addr(c, i) + j) == 0xDD, "deallocate: node carries the freed-memory pattern outside the index byte"); }
#endif
    ASSERT(handler_calls == 0, "deallocate: a valid release is never reported");
#elif OP >= OP_BAD_OUTSIDE && OP <= OP_BAD_DOUBLE
    establish(L, 0, (int)nch, pre);
    ASSUME(nch >= 1);
    snap_cap = L_CAP(L);
    for (int d = 0; d < NCH; ++d) if ((uint64_t)d < nch) { snap_ff[d] = C_FF(CH[d]); snap_ccap[d] = C_CAP(CH[d]); snap_prev[d] = C_PREV(CH[d]); snap_next[d] = C_NEXT(CH[d]); }
    uint64_t q = HEAP_BASE + (uint64_t)nondet_u8(); ASSUME(IN_HEAP(q, ns));
#if OP == OP_BAD_OUTSIDE
    for (int d = 0; d < NCH; ++d) if ((uint64_t)d < nch) ASSUME(q < CH[d] + CHDR || q >= CH[d] + CHDR + mul_small(nn[d], ns));
    ASSUME(disjoint(q, ns, L, LSIZE));
    for (int d = 0; d < NCH; ++d) if ((uint64_t)d < nch) ASSUME(disjoint(q, ns, CH[d], CHDR));   /* foreign memory, not the allocator's own headers */
#elif OP == OP_BAD_STRIDE
    { uint8_t c = nondet_u8(), i = nondet_u8(), o = nondet_u8();
      ASSUME(c < nch && i < nn[c < NCH ? c : 0] && o >= 1 && o < ns); q = node_addr(c, i) + o; }
#else
    { uint8_t c = nondet_u8(), i = nondet_u8();
      ASSUME(c < nch && i < nn[c < NCH ? c : 0] && (pre[c < NCH ? c : 0] >> i & 1)); q = node_addr(c, i); }
#endif
    handler_ptr = q;
    w_sfl_deallocate(L, q);
    ASSERT(handler_calls >= 1, "C16: invalid release to a small-node list is reported (or the program stops)");
#define NO_END_WITNESS
#elif OP == OP_INSERT
    /* list holds chunk 0 or chunk 1 or nothing; the other chunk's memory is inserted as a new block */
    uint8_t have = nondet_u8(); ASSUME(have < 3);     /* 0: empty list, 1: has CH[0] inserts CH[1], 2: has CH[1] inserts CH[0] */
    int c0 = have == 2 ? 1 : 0, c1 = have == 0 ? 0 : (have == 1 ? 1 : 2), nc = have == 2 ? 0 : (have == 1 ? 1 : 0);
    nch = NCH;
    establish(L, c0, c1, pre);
    uint64_t extra = nondet_u8(); ASSUME(extra < ns);
    uint64_t size = CHDR + mul_small(nn[nc], ns) + extra;
    ASSUME(!w_in_obj && disjoint(wa, 1, CH[nc], size) && !(wa >= CH[1 - nc] && wa < CH[1 - nc] + CHDR && have != 0));
    ASSUME(!(w_c == 1 - nc && have != 0 && (pre[1 - nc] >> w_i & 1)));
    wv = H8(wa);
    w_sfl_insert(L, CH[nc], size);
    if (have == 0) walk(L, nc, nc + 1, post, 1); else walk(L, 0, 2, post, 1);
    ASSERT(post[nc] == (1u << nn[nc]) - 1, "insert: every node of the new chunk is free");
    if (have != 0) ASSERT(post[1 - nc] == pre[1 - nc], "insert: existing chunk unchanged");
    ASSERT(H8(wa) == wv, "insert: writes only into the new block and ring links");
    ASSERT(handler_calls == 0, "insert: no invalid-pointer report");
#elif OP == OP_INSERT_MULTI
    /* the list holds nothing or one existing chunk E (3 nodes) that lies below or above the new block.  The new block is
       [full chunk: header + 255 nodes][alignment buffer][remainder chunk: header + k nodes].  Checked: ring order and
       both link directions through all chunks, header fields of the new chunks, capacity_. */
    /* block and existing chunk live in the sparse phantom region (rt.c): chunk headers are exact 32-byte lines, node payload is
       write-only, so the 255-iteration chunk constructor is affordable; the existing chunk E has no free node (header only) */
    uint64_t PH = UINT64_C(0x1000000);
    uint64_t full = CHDR + 255 * ns, stride = (full + 7) & ~UINT64_C(7);
#ifndef KREM
#define KREM 2
#endif
#ifndef HAVE
#define HAVE 1
#endif
    uint64_t k = KREM, extra = nondet_u8(); ASSUME(extra < ns);
    uint64_t size = stride + CHDR + k * ns + extra;
    uint8_t have = HAVE;                                        /* 0 empty list, 1 E below the block, 2 E above the block */
    uint64_t BLK = PH + 64;
    uint64_t E = have == 1 ? PH : ((BLK + size + 7) & ~UINT64_C(7));
    L = HEAP_BASE; g_L = L;
    uint64_t base0 = L_BASE(L);
    /* list: empty, or ring base <-> E with E fully allocated */
    HS64(L + w_off_sfl_node_size(), ns);
    HS64(L + w_off_sfl_capacity(), 0);
    HS8(base0 + w_off_chunk_first_free(), 0); HS8(base0 + w_off_chunk_capacity(), 0); HS8(base0 + w_off_chunk_no_nodes(), 0);
    if (have) {
        HS64(E + w_off_chunk_prev(), base0); HS64(E + w_off_chunk_next(), base0);
        HS8(E + w_off_chunk_first_free(), 3); HS8(E + w_off_chunk_capacity(), 0); HS8(E + w_off_chunk_no_nodes(), 3);
        HS64(base0 + w_off_chunk_next(), E); HS64(base0 + w_off_chunk_prev(), E);
    } else { HS64(base0 + w_off_chunk_next(), base0); HS64(base0 + w_off_chunk_prev(), base0); }
    { uint8_t ai = nondet_u8() & 1, di = nondet_u8() & 1;
      HS64(L + w_off_sfl_alloc_chunk(), have && ai ? E : base0); HS64(L + w_off_sfl_dealloc_chunk(), have && di ? E : base0); }
    uint64_t cap0 = 0;
    w_sfl_insert(L, BLK, size);
    uint64_t c1 = BLK, c2 = BLK + stride, base = L_BASE(L);
    ASSERT(C_NN(c1) == 255 && C_CAP(c1) == 255 && C_FF(c1) == 0, "insert: the first new chunk holds 255 free nodes");
    ASSERT(C_NN(c2) == k && C_CAP(c2) == k && C_FF(c2) == 0, "insert: the remainder chunk holds floor((rest - header) / node_size) free nodes");
    ASSERT(L_CAP(L) == cap0 + 255 + k, "C18: capacity_ grows by the number of nodes inserted");
    /* ring in ascending address order, both directions */
    uint64_t seq[5]; int ns_ = 0;
    seq[ns_++] = base;
    if (have == 1) seq[ns_++] = E;
    seq[ns_++] = c1; seq[ns_++] = c2;
    if (have == 2) seq[ns_++] = E;
    for (int i = 0; i < 5; ++i) if (i < ns_) {
        uint64_t nx = seq[(i + 1) % ns_ == ns_ ? 0 : (i + 1 < ns_ ? i + 1 : 0)], pv = seq[i == 0 ? ns_ - 1 : i - 1];
        ASSERT(C_NEXT(seq[i]) == nx, "Inv: chunk ring lists the chunks in ascending address order (forward links)");
        ASSERT(C_PREV(seq[i]) == pv, "Inv: chunk ring is doubly linked (every backward link matches)");
    }
    if (have) { uint32_t m[NCH]; (void)m; ASSERT(C_CAP(E) == C_CAP(E) && C_NN(E) == 3, "insert: the existing chunk keeps its header"); }
    ASSERT(handler_calls == 0, "insert: no invalid-pointer report");
#elif OP == OP_MOVE_CTOR
    establish(L, 0, (int)nch, pre);
    ASSUME(!w_in_obj && !(w_c >= 0 && (uint64_t)w_c < nch && (pre[w_c] >> w_i & 1)) && !w_in_link);
    wv = H8(wa);
    w_sfl_move_ctor(L2, L);
    walk(L2, 0, (int)nch, post, 1);
    for (int d = 0; d < NCH; ++d) if ((uint64_t)d < nch) ASSERT(post[d] == pre[d], "move ctor: destination owns exactly the source's chunks and free nodes");
    { uint64_t keep = nch; nch = 0; check_cache = 0; walk(L, 0, 0, post, 1); check_cache = 1; nch = keep; }
    ASSERT(w_sfl_capacity(L) == 0, "move ctor: source is empty");
    ASSERT(H8(wa) == wv, "move ctor: live nodes untouched");
#elif OP == OP_SWAP || OP == OP_MOVE_ASSIGN
    /* L holds chunks [0, k), L2 holds chunks [k, nch) */
    uint8_t k = nondet_u8(); ASSUME(k <= nch);
    uint32_t preb[NCH];
    establish(L, 0, k, pre);
    establish(L2, k, (int)nch, preb);
    ASSUME(!w_in_obj && !(w_c >= 0 && (uint64_t)w_c < nch && ((pre[w_c] | preb[w_c]) >> w_i & 1)) && !w_in_link);
    wv = H8(wa);
#if OP == OP_SWAP
    w_sfl_swap(L, L2);
    walk(L2, 0, k, post, 1);
    for (int d = 0; d < NCH; ++d) if (d < k) ASSERT(post[d] == pre[d], "swap: second gets the first's chunks");
    walk(L, k, (int)nch, post, 1);
    for (int d = 0; d < NCH; ++d) if (d >= k && (uint64_t)d < nch) ASSERT(post[d] == preb[d], "swap: first gets the second's chunks");
#else
    w_sfl_move_assign(L2, L);
    walk(L2, 0, k, post, 1);
    for (int d = 0; d < NCH; ++d) if (d < k) ASSERT(post[d] == pre[d], "move assign: destination owns the source's chunks");
    ASSERT(w_sfl_capacity(L) == 0 || walk(L, k, (int)nch, post, 0), "move assign: source is a valid list (empty or the target's old chunks)");
#endif
    ASSERT(H8(wa) == wv, "swap/move assign: live nodes untouched");
#else
#error "OP"
#endif
#ifndef NO_END_WITNESS
    WITNESS_END();
#endif
}
