"""Job registry: which solver queries decide which property (see DESIGN.md section 7)."""
from driver import Job

JOBS = []
def add(*a, **k):
    j = Job(*a, **k); JOBS.append(j); return j

# ---------------------------------------------------------------- C19 arithmetic kernels
C19_CASES = {1: 'is_valid_alignment', 2: 'round_up_to_multiple_of_alignment', 3: 'align_offset/is_aligned',
             4: 'alignment_for', 5: 'ilog2/ilog2_ceil/is_power_of_two', 6: 'log2/identity access policy'}
for c, d in C19_CASES.items():
    add('c19-arith-%d' % c, ['C19'], 'arith', 'c19_arith.c', config='baseline', defines=['CASE=%d' % c], unwind=66, timeout=120,
        desc=d, bounds='all 64-bit sizes/addresses, all 64 power-of-two alignments (no bound)')
    add('c19-arith-%d-kissat' % c, ['C19'], 'arith', 'c19_arith.c', config='release', defines=['CASE=%d' % c], unwind=66, timeout=600,
        tier='thorough', solver='kissat', desc=d + ' (second solver, release config)', bounds='all 64-bit inputs')

# ---------------------------------------------------------------- intrusive free lists, one inductive step per operation
FL_OPS = {1: 'allocate', 2: 'deallocate', 3: 'allocate_n', 4: 'deallocate_n', 5: 'insert', 6: 'ctor',
          7: 'move_ctor', 8: 'move_assign', 9: 'swap', 10: 'roundtrip_n', 11: 'double_free'}
FL_PROPS = {1: ['C01', 'C02', 'C16', 'C17'], 2: ['C01', 'C04', 'C16', 'C17'], 3: ['C01', 'C02', 'C04', 'C17'], 4: ['C01', 'C04', 'C16', 'C17'],
            5: ['C01', 'C02', 'C04', 'C18'], 6: ['C01', 'C18'], 7: ['C12'], 8: ['C12'], 9: ['C12'], 10: ['C04', 'C18'], 11: ['C16']}
def ns_split(n): return ('ns%d' % n, n, ['NS_MIN=%d' % n, 'NS_MAX=%d' % n])
NS_SPLITS_QUICK = [ns_split(8), ns_split(12)]
NS_SPLITS_MORE = [ns_split(n) for n in (9, 16)]
NS_SPLITS_THOROUGH = [ns_split(n) for n in (10, 24)]

def fl_jobs(kind, kname, op, config, tier, splits, nb=3, nb2=0, timeout=300, extra_def=(), two_obj=None, lays=None):
  if lays is None: lays = ((0, 0),) if kind == 1 else (((0, 0), (1, 0)) if nb2 == 0 else ((0, 0), (1, 1), (2, 0), (3, 1)))
  for lay, gapv in lays:
    for sname, ns, sdef in splits:
        two = op in (7, 8, 9) if two_obj is None else two_obj
        lsize = 24 if kind == 1 else 48
        r16 = lambda x: (x + 15) // 16 * 16
        heap = r16(lsize * 2 + r16(nb * ns) + r16((nb2 + 1) * ns) + 16)
        add('fl-%s-%s-%s-%s-nb%d_%d-lay%d%d' % (kname, FL_OPS[op], config, sname, nb, nb2, lay, gapv), FL_PROPS[op], 'freelist', 'fl_step.c', config=config,
            defines=['LISTKIND=%d' % kind, 'OP=%d' % op, 'NB=%d' % nb, 'NB2=%d' % nb2, 'HEAP_SIZE=%d' % heap, 'LAY=%d' % lay, 'GAP=%d' % gapv] + sdef + list(extra_def),
            unwind=max(nb + nb2 + 3, (nb + nb2) * ns // 8 + 3), timeout=timeout, tier=tier,
            desc='%s::%s one inductive step from an arbitrary valid state' % (kname, FL_OPS[op]),
            bounds='<=%d+%d node slots in 1-2 blocks, layout %d gap %d (objects below/between/above the blocks, blocks adjacent or apart), node size %d, heap %d bytes' % (nb, nb2, lay, gapv, ns, heap))

for kind, kname in ((1, 'free_memory_list'), (2, 'ordered_free_memory_list')):
    for op in (1, 2, 3, 4, 6, 7, 8, 9):
        fl_jobs(kind, kname, op, 'release', 'quick', NS_SPLITS_QUICK)
        fl_jobs(kind, kname, op, 'release', 'thorough', NS_SPLITS_MORE + NS_SPLITS_THOROUGH)
        fl_jobs(kind, kname, op, 'baseline', 'thorough', NS_SPLITS_QUICK + NS_SPLITS_MORE, timeout=900)
        fl_jobs(kind, kname, op, 'debug8', 'thorough', NS_SPLITS_QUICK[:1], timeout=900)
        if op in (3, 4): fl_jobs(kind, kname, op, 'release', 'thorough', NS_SPLITS_QUICK[:1], nb=2, nb2=2, timeout=1800)
    for op in (1, 2):     # fill patterns (C17) and no-false-report (C16) in the pinned configuration
        fl_jobs(kind, kname, op, 'baseline', 'quick', NS_SPLITS_QUICK)
    fl_jobs(kind, kname, 4, 'baseline', 'quick', NS_SPLITS_QUICK[1:], lays=((0, 0),))     # array release: fill over all n bytes (n not a node multiple)
    fl_jobs(kind, kname, 10, 'release', 'thorough', NS_SPLITS_QUICK + NS_SPLITS_MORE, timeout=1800)
    fl_jobs(kind, kname, 5, 'release', 'quick', NS_SPLITS_QUICK, nb=2, nb2=2)
    fl_jobs(kind, kname, 5, 'baseline', 'thorough', NS_SPLITS_QUICK + NS_SPLITS_MORE, nb=2, nb2=2, timeout=900)
# four slots: two free nodes behind the released one are needed for the forward/backward position search to go wrong
for op in (1, 2):
    fl_jobs(2, 'ordered_free_memory_list', op, 'release', 'quick', NS_SPLITS_QUICK[:1], nb=4, lays=((0, 0), (1, 0)))
# fragmented lists: a run behind a gap needs at least 4 slots
for kind, kname in ((1, 'free_memory_list'), (2, 'ordered_free_memory_list')):
    fl_jobs(kind, kname, 3, 'release', 'quick', NS_SPLITS_QUICK[:1], nb=4, lays=((0, 0),))
    fl_jobs(kind, kname, 4, 'release', 'quick', NS_SPLITS_QUICK[:1], nb=4, lays=((1, 0),))
    fl_jobs(kind, kname, 3, 'release', 'thorough', NS_SPLITS_QUICK, nb=5, timeout=1800, lays=((0, 0),))
    fl_jobs(kind, kname, 4, 'release', 'thorough', NS_SPLITS_QUICK, nb=5, timeout=1800, lays=((0, 0),))
# double free detection exists only for the ordered list in double-dealloc-check builds
fl_jobs(2, 'ordered_free_memory_list', 11, 'check', 'quick', NS_SPLITS_QUICK, extra_def=['HANDLER_STOPS'])
fl_jobs(2, 'ordered_free_memory_list', 11, 'debug8', 'thorough', NS_SPLITS_QUICK + NS_SPLITS_MORE, extra_def=['HANDLER_STOPS'], timeout=900)
for op in (1, 2, 3, 4):
    fl_jobs(2, 'ordered_free_memory_list', op, 'check', 'quick', NS_SPLITS_QUICK[:1])

# ---------------------------------------------------------------- small_free_memory_list
SFL_OPS = {14: 'insert_multi', 1: 'allocate', 2: 'deallocate', 5: 'insert', 6: 'ctor', 7: 'move_ctor', 8: 'move_assign', 9: 'swap',
           11: 'bad_outside', 12: 'bad_stride', 13: 'bad_double'}
SFL_PROPS = {14: ['C01', 'C04', 'C18'], 1: ['C01', 'C02', 'C16', 'C17'], 2: ['C01', 'C04', 'C16', 'C17'], 5: ['C01', 'C02'], 6: ['C01'], 7: ['C12'], 8: ['C12'], 9: ['C12'],
             11: ['C16'], 12: ['C16'], 13: ['C16']}
def sfl_jobs(op, config, tier, nss, timeout=400, lays=((0, 0), (1, 1), (2, 0)), mem=6):
    for ns in nss:
        for lay, gap in lays:
            add('sfl-%s-%s-ns%d-lay%d%d' % (SFL_OPS[op], config, ns, lay, gap), SFL_PROPS[op], 'freelist', 'sfl_step.c', config=config,
                defines=['OP=%d' % op, 'NS_MIN=%d' % ns, 'NS_MAX=%d' % ns, 'LAY=%d' % lay, 'GAP=%d' % gap,
                         'HEAP_SIZE=%d' % (2 * 56 + 2 * ((32 + 3 * ns + 7) // 8 * 8) + 16 + 8)], unwind=8, timeout=timeout, tier=tier, mem_gb=mem,
                desc='small_free_memory_list::%s one inductive step from an arbitrary valid state' % SFL_OPS[op],
                bounds='<=2 chunks of <=3 nodes, arbitrary free chains, cache pointers anywhere on the ring, node size %d, layout %d (objects below/between/above the chunks), chunk gap %d' % (ns, lay, gap))
for op in (1, 2, 6, 7, 8, 9):
    sfl_jobs(op, 'release', 'quick', (3,), lays=((1, 0),))
    sfl_jobs(op, 'release', 'thorough', (1, 4))
    sfl_jobs(op, 'baseline', 'thorough', (1, 3), timeout=1200, lays=((1, 0),))
for op in (1, 2):
    sfl_jobs(op, 'baseline', 'quick', (3,), lays=((0, 0), (2, 0)))
    sfl_jobs(op, 'baseline', 'quick', (1,), lays=((1, 1),))
sfl_jobs(5, 'release', 'quick', (3,), timeout=900, lays=((1, 0),), mem=14)     # peak RSS 5.5 GB: a 6 GB address-space cap made this query flaky
sfl_jobs(5, 'release', 'thorough', (1,), timeout=1800, mem=14)
for op in (11, 12):
    sfl_jobs(op, 'baseline', 'quick', (3,))
    sfl_jobs(op, 'baseline', 'thorough', (1,) if op == 11 else (2,), timeout=1200)     # node size 1 has no off-stride pointer
sfl_jobs(13, 'check', 'quick', (3,), lays=((1, 0),))
sfl_jobs(13, 'debug8', 'thorough', (1, 3), timeout=1200, lays=((1, 0),))

# ---------------------------------------------------------------- C18 (a): min_block_size of the small list vs the real insert()
SFL_INSERT = 'F__ZN9foonathan6memory6detail22small_free_memory_list6insertEPvm'
def c18_sfl(ns, k, tier):
    add('c18-sfl-minblock-ns%d-k%d' % (ns, k), ['C18'], 'freelist', 'c18_minblock.c', config='release',
        defines=['KIND=3', 'NS=%d' % ns, 'K=%d' % k, 'HEAP_SIZE=64', 'IR_PHANTOM'], unwind=4,
        unwindset=['ph_find.0:13', SFL_INSERT + '.0:257', SFL_INSERT + '.1:%d' % (k + 2), SFL_INSERT + '.2:%d' % (k + 2),
                   SFL_INSERT + '.3:257', SFL_INSERT + '.4:4'], timeout=300, tier=tier,
        desc='small_free_memory_list: insert() on min_block_size(ns, n) bytes yields >= n nodes, for every n with chunk_count(n) = %d' % k,
        bounds='node size %d (constant of the query), all n in (%d, %d]; block in a sparse phantom region (header lines exact, payload bytes write-only)' % (ns, 255 * (k - 1), 255 * k))
for ns in (1, 2, 3, 5, 8, 451):
    for k in (1, 2, 8):
        c18_sfl(ns, k, 'quick')
for ns in list(range(1, 17)) + [63, 64, 65, 451, 511, 512]:
    for k in (1, 2, 3, 8):
        if not (ns in (1, 2, 3, 5, 8, 451) and k in (1, 2, 8)):
            c18_sfl(ns, k, 'thorough')

for kind, kname in ((1, 'free_memory_list'), (2, 'ordered_free_memory_list')):
    add('c18-%s-minblock' % kname, ['C18'], 'freelist', 'c18_minblock.c', config='release', defines=['KIND=%d' % kind, 'HEAP_SIZE=64'],
        unwind=4, timeout=300, solver='cvc5', desc='%s: min_block_size/usable_size/node_size arithmetic (cvc5, integer encoding of bit-vectors)' % kname, bounds='all node sizes 1..512, all n 1..2000 (symbolic)')

# ---------------------------------------------------------------- iteration_allocator<N>
IT_OPS = {1: 'ctor', 2: 'allocate', 3: 'try_allocate', 4: 'next_iteration', 5: 'dtor', 6: 'move_ctor', 7: 'move_assign', 8: 'try_deallocate'}
IT_PROPS = {1: ['C07', 'C01', 'C03', 'C05'], 2: ['C07', 'C01', 'C02', 'C03', 'C17', 'C18'], 3: ['C07', 'C01', 'C02', 'C03', 'C18'],
            4: ['C07', 'C01'], 5: ['C05'], 6: ['C12', 'C05'], 7: ['C12', 'C05'], 8: ['C08']}
def it_jobs(n, op, config, tier, bmax=48, smax=24, timeout=300):
    add('iter-%s-N%d-%s' % (IT_OPS[op], n, config), IT_PROPS[op], 'stack', 'iter_step.c', config=config,
        defines=['NIT=%d' % n, 'OP=%d' % op, 'BMAX=%d' % bmax, 'SMAX=%d' % smax, 'HEAP_SIZE=%d' % (2 * 96 + 64 + (bmax + 15) // 16 * 16 + 16 + 32 + 16)],
        unwind=8, timeout=timeout, tier=tier,
        desc='iteration_allocator<%d>::%s from an arbitrary valid state' % (n, IT_OPS[op]),
        bounds='block size %d..%d (symbolic, any remainder mod N), block at 4 residues mod 64, every top symbolic, size <= %d, alignment 1..64' % (n, bmax, smax))
for n in (1, 2, 3, 5):
    for op in range(1, 9):
        it_jobs(n, op, 'baseline' if n == 2 or op not in (2, 3) else 'release', 'quick')
for n in (1, 2, 3, 4, 5):
    for op in range(1, 9):
        it_jobs(n, op, 'release', 'thorough', bmax=96, smax=40, timeout=1200)
        if n == 3: it_jobs(n, op, 'debug8', 'thorough', bmax=64, smax=24, timeout=1800)
        if n == 4: it_jobs(n, op, 'baseline', 'thorough', timeout=1200)

# ---------------------------------------------------------------- memory_stack / arena steps
MS_OPS = {1: 'ctor', 2: 'allocate', 3: 'try_allocate', 4: 'unwind', 5: 'shrink_to_fit', 6: 'dtor', 7: 'move_ctor', 8: 'move_assign',
          9: 'script', 10: 'markers', 11: 'bad_unwind', 12: 'traits'}
MS_PROPS = {1: ['C01', 'C03', 'C05', 'C18'], 2: ['C01', 'C02', 'C03', 'C05', 'C17', 'C18'], 3: ['C01', 'C02', 'C03'], 4: ['C06', 'C05', 'C16', 'C01'],
            5: ['C05'], 6: ['C05', 'C15'], 7: ['C12', 'C05', 'C15'], 8: ['C12', 'C05'], 9: ['C06'], 10: ['C06'], 11: ['C16'], 12: ['C15', 'C18', 'C02']}
def ms_jobs(op, config, tier, ku=2, kc=1, slot=80, smax=24, timeout=400, mem=8):
    heap = (2 * 64 + 3 * 24 + 8 + (ku + kc + 1) * slot + 15) // 16 * 16
    add('ms-%s-%s-k%d%d-s%d' % (MS_OPS[op], config, ku, kc, slot), MS_PROPS[op], 'stack', 'stack_step.c', config=config,
        defines=['OP=%d' % op, 'KU=%d' % ku, 'KC=%d' % kc, 'SLOT=%d' % slot, 'SMAX=%d' % smax, 'MAXB=%d' % (ku + kc + 2), 'HEAP_SIZE=%d' % heap],
        unwind=ku + kc + 4, timeout=timeout, tier=tier, mem_gb=mem,
        desc='memory_stack<growing_block_allocator<hook>>::%s from an arbitrary valid state' % MS_OPS[op],
        bounds='<=%d used + <=%d cached blocks in %d symbolic slots (any address order), block sizes 24..%d, bump pointer anywhere, size <= %d, alignment 1..64, upstream may fail at every call' % (ku, kc, ku + kc + 1, slot, smax))
for op in (1, 2, 3, 4, 5, 6, 7, 10, 12):
    ms_jobs(op, 'release', 'quick')
ms_jobs(8, 'release', 'quick', ku=1, kc=1, timeout=600)
ms_jobs(9, 'release', 'quick', ku=1, kc=1, timeout=600)
ms_jobs(11, 'ptr', 'quick')
ms_jobs(4, 'check', 'quick')
ms_jobs(6, 'baseline', 'quick')
ms_jobs(12, 'baseline', 'quick')
ms_jobs(2, 'baseline', 'quick', ku=1, kc=1, slot=48, smax=16, timeout=600)
for op in (2, 3, 4, 5, 6, 7):
    ms_jobs(op, 'baseline', 'thorough', timeout=3000, mem=16)
for op in (2, 4, 5, 6, 10, 12):
    ms_jobs(op, 'release', 'thorough', ku=3, kc=2, timeout=3000, mem=16)
ms_jobs(11, 'baseline', 'thorough', timeout=3000, mem=16)
ms_jobs(2, 'debug8', 'thorough', ku=1, kc=1, slot=48, smax=16, timeout=3000, mem=16)

# ---------------------------------------------------------------- memory_pool_collection<node_pool, log2_buckets> steps
CO_OPS = {9: 'reserve', 1: 'ctor', 2: 'allocate_node', 3: 'try_allocate_node', 4: 'deallocate_node', 5: 'try_deallocate_node', 6: 'dtor', 7: 'allocate_array', 8: 'try_allocate_array', 10: 'deallocate_array'}
CO_PROPS = {9: ['C18', 'C01', 'C04'], 1: ['C01', 'C03', 'C18'], 2: ['C01', 'C02', 'C03', 'C04'], 3: ['C01', 'C02', 'C03', 'C04'], 4: ['C01', 'C04', 'C18'], 5: ['C08', 'C04'],
            6: ['C05', 'C15'], 7: ['C01', 'C02', 'C03', 'C15'], 8: ['C01', 'C02', 'C03'], 10: ['C04', 'C15', 'C18']}
def co_jobs(op, config, tier, nslot=2, restmax=48, timeout=900, mem=12):
    add('coll-%s-%s-s%d-r%d' % (CO_OPS[op], config, nslot, restmax), CO_PROPS[op], 'pool', 'coll_step.c', config=config,
        defines=['OP=%d' % op, 'NSLOT=%d' % nslot, 'RESTMAX=%d' % restmax, 'MAXB=4', 'HEAP_SIZE=480'], unwind=24,
        unwindset=['ir_ctlz.0:65', 'ir_ctpop.0:65'], timeout=timeout, tier=tier, mem_gb=mem,
        desc='memory_pool_collection<node_pool, log2_buckets>::%s from an arbitrary valid state' % CO_OPS[op],
        bounds='1..2 used blocks, %d reserved 16-byte slots per block each LIVE / free on the 16-list / free on the 8-list (chains in symbolic order), unreserved rest 0..%d bytes, request size 1..16, upstream may fail' % (nslot, restmax))
for op in (1, 4, 5, 6):
    co_jobs(op, 'release', 'quick')
for op in (2, 3, 9):
    co_jobs(op, 'release', 'quick', nslot=1, restmax=40)
for op in (2, 3, 8, 9):
    co_jobs(op, 'release', 'thorough', timeout=3000, mem=16)
co_jobs(7, 'release', 'quick', nslot=1, restmax=40, timeout=3000, mem=16)      # ~10 min; the query that found the allocate_array defect (eec373e)      # two slots per block: no verdict within 3000 s under load
for op in (4, 6):
    co_jobs(op, 'baseline', 'thorough', timeout=3000, mem=16)
# leak accounting (C15) needs a leak-checking configuration; 'leak' = leak counter only
CO_PROPS[2] = CO_PROPS[2] + ['C15']; CO_PROPS[4] = CO_PROPS[4] + ['C15']
for op in (4, 6, 10):
    co_jobs(op, 'leak', 'quick', timeout=1200)
co_jobs(10, 'release', 'quick')
co_jobs(2, 'leak', 'quick', nslot=1, restmax=40, timeout=1200)
co_jobs(7, 'leak', 'quick', nslot=1, restmax=40, timeout=3000, mem=16)

# ---------------------------------------------------------------- adapters over recording leaves
AD_COMP = {'direct': ['EXACT_SHAPE'], 'ref': ['EXACT_SHAPE'], 'any': [], 'ts': ['EXACT_SHAPE', 'EXPECT_MUTEX', 'LOCK_PROXY'], 'al': ['NEED_POW2_ARG'],
           'tr': ['EXACT_SHAPE', 'HAS_TRACKER'], 'seg': ['MULTI_LEAF'], 'fb': ['MULTI_LEAF'], 'fb2': ['MULTI_LEAF'],
           'fbal': ['MULTI_LEAF', 'NEED_POW2_ARG'], 'd3': ['EXPECT_MUTEX', 'HAS_TRACKER', 'NEED_POW2_ARG']}
AD_DESC = {'direct': 'allocator_adapter<leaf>', 'ref': 'allocator_reference<leaf>', 'any': 'any_allocator_reference (type erased, virtual dispatch)',
           'ts': 'thread_safe_allocator<leaf, harness mutex>', 'al': 'aligned_allocator<leaf>', 'tr': 'tracked_allocator<tracker, leaf>',
           'seg': 'binary_segregator<threshold_segregatable<leaf1>, leaf2>', 'fb': 'fallback_allocator<leaf1, leaf2>',
           'fb2': 'fallback_allocator<fallback_allocator<leaf1, leaf2>, leaf3>', 'fbal': 'fallback_allocator<aligned_allocator<leaf1>, leaf2>',
           'd3': 'thread_safe_allocator<aligned_allocator<tracked_allocator<tracker, leaf>>, harness mutex>'}
for comp, defs in AD_COMP.items():
    props = ['C09'] + (['C08'] if comp.startswith('fb') or comp == 'seg' else []) + (['C13'] if comp in ('ts', 'd3', 'direct', 'ref', 'any') else [])
    for api in (0, 1):
        for ks in (0, 1):
            for cfg, tier in (('release', 'quick'), ('baseline', 'thorough'), ('debug8', 'thorough')):
                add('adapt-%s-%s-%s-%s' % (comp, 'try' if api else 'throw', 'array' if ks else 'node', cfg), props, 'adapt', 'adapt_step.c', config=cfg,
                    defines=['COMP=%s' % comp, 'API=%d' % api, 'KINDSEL=%d' % ks, 'HEAP_SIZE=256'] + defs, unwind=8, timeout=300, tier=tier,
                    desc='%s: one %s %s request and its matching release over recording leaves' % (AD_DESC[comp], 'composable' if api else 'throwing', 'array' if ks else 'node'),
                    bounds='size 1..65535, count 1..8, alignment 1..64 (powers of two), leaf maxima and success/failure of every leaf call symbolic')
for comp, defs, dsc in (('min', ['TRAITS_DEFAULTS'], 'allocator_adapter<minimal RawAllocator (allocate_node/deallocate_node only)>: allocator_traits defaults'),
                        ('stdl', ['TRAITS_DEFAULTS', 'STD_LEAF'], 'allocator_adapter<standard-library style Allocator>: allocator_traits rebinds to char and forwards byte counts')):
    for ks in (0, 1):
        add('adapt-%s-throw-%s-release' % (comp, 'array' if ks else 'node'), ['C09', 'C18'], 'adapt', 'adapt_step.c', config='release',
            defines=['COMP=%s' % comp, 'API=0', 'KINDSEL=%d' % ks, 'HEAP_SIZE=256'] + defs, unwind=8, timeout=300,
            desc='%s: one throwing %s request and its matching release' % (dsc, 'array' if ks else 'node'),
            bounds='size 1..65535, count 1..8, alignment 1..64 (std style: 1..16), success/failure of the leaf call symbolic')
# memory_resource_allocator over memory_resource_adapter<leaf> (COMP=mral in the shim): no verdict within 1800 s with either back end
# (symbolic count*size feeding the adapter's division by max_node_size): not registered, stated as outside the claim
for sa in ('sa1', 'sa3', 'sa24', 'sa48'):
    add('adapt-misc-1-%s' % sa, ['C09', 'C10'], 'adapt', 'adapt_misc.c', config='release', defines=['CASE=1', 'SA=%s' % sa, 'HEAP_SIZE=512'], unwind=8, timeout=300,
        desc='std_allocator<T, leaf>::allocate(n)/deallocate(p, n), T = %s' % sa, bounds='n 1..5')
add('adapt-misc-2', ['C09'], 'adapt', 'adapt_misc.c', config='release', defines=['CASE=2', 'HEAP_SIZE=512'], unwind=8, timeout=600, solver='cvc5',
    desc='memory_resource_adapter<leaf> through the memory_resource interface (cvc5: integer encoding for the division)', bounds='bytes 1..65535, max_node_size 1..4096, alignment 1..64')
add('adapt-misc-3', ['C09', 'C20'], 'adapt', 'adapt_misc.c', config='release', defines=['CASE=3', 'HEAP_SIZE=512'], unwind=8, timeout=300,
    desc='allocator_(polymorphic_)deleter / deallocator incl. a derived type of 70016 bytes', bounds='array length 1..255')
add('adapt-misc-4', ['C10', 'C09'], 'adapt', 'adapt_misc.c', config='release', defines=['CASE=4', 'HEAP_SIZE=512'], unwind=8, timeout=300,
    desc='std_allocator equality: same referenced object <=> equal; release through an equal allocator reaches the same leaf', bounds='two allocator objects')

# ---------------------------------------------------------------- low-level allocators: fences, fill, stateless leak counter
for cfg, tier in (('debug8', 'quick'), ('baseline', 'quick'), ('debug16', 'thorough'), ('release', 'thorough')):
    for which, wn in ((0, 'lowlevel_allocator<hook functor>'), (1, 'malloc_allocator')):
        add('ll-node-%s-%d' % (cfg, which), ['C17', 'C01', 'C02', 'C03', 'C09'], 'lowlevel', 'll_step.c', config=cfg,
            defines=['CASE=1', 'WHICH=%d' % which, 'HEAP_SIZE=128', 'IR_HOOK_MALLOC'], unwind=20, timeout=300, tier=tier,
            desc='%s: allocate_node, up to two user writes anywhere in fence/node/fence, deallocate_node' % wn,
            bounds='node size 1..24, alignment 1..16, OS block at 4 residues, write offsets and values symbolic, OS may fail')
    add('ll-leak-%s' % cfg, ['C15'], 'lowlevel', 'll_step.c', config=cfg, defines=['CASE=2', 'HEAP_SIZE=128', 'IR_HOOK_MALLOC'], unwind=20, timeout=300, tier=tier,
        desc='stateless leak counter: 1..3 counter objects, 3 symbolic on_allocate/on_deallocate, counters destroyed', bounds='amounts 0..255 each')

# ---------------------------------------------------------------- object-creating helpers with throwing constructors, joint allocations
SM = {1: ('allocate_unique<elem[]>', ['C20', 'C09', 'C02']), 2: ('allocate_unique<elem>', ['C20', 'C09']), 4: ('allocate_joint<jt> (joint_array<elem> + joint_array<char>)', ['C11', 'C20']),
      5: ('clone_joint', ['C11', 'C20']), 7: ('allocate_joint<jt2> (joint_array<char> before joint_array<elem>: padding)', ['C11', 'C20']), 6: ('joint_ptr move + reset', ['C11', 'C12', 'C20']), 3: ('allocate_shared<elem>', ['C20'])}
def sm_job(case, tier, nmax, timeout=900, mem=16):
    add('smart-%d-n%d' % (case, nmax), SM[case][1], 'smart', 'smart_step.c', config='release', defines=['CASE=%d' % case, 'NMAX=%d' % nmax, 'HEAP_SIZE=512'],
        unwind=20, timeout=timeout, tier=tier, mem_gb=mem, desc='%s with a constructor that throws at a symbolic index (or not at all), leaf allocation may fail' % SM[case][0],
        bounds='array length 0..%d, failure at every constructor call index or none, joint additional size 0..64, second array 0..16 bytes' % nmax)
sm_job(1, 'quick', 4); sm_job(2, 'quick', 1); sm_job(4, 'quick', 2); sm_job(6, 'quick', 2); sm_job(7, 'quick', 2)
sm_job(7, 'thorough', 3, 3000, 16)
add('smart-8-jalloc', ['C11', 'C01'], 'smart', 'smart_step.c', config='release', defines=['CASE=8', 'NMAX=0', 'HEAP_SIZE=512'], unwind=20, timeout=900, tier='quick', mem_gb=16,
    desc='joint_allocator used directly on a joint object: allocate A, allocate B, release A (not the last allocation), allocate C; B and C inside the joint memory, aligned, disjoint; block released whole',
    bounds='additional size 0..64, three piece sizes 1..24 each, alignment 1/2/4/8, leaf allocation may fail')
sm_job(1, 'thorough', 8, 3000, 16); sm_job(4, 'thorough', 3, 3000, 16); sm_job(5, 'thorough', 2, 3600, 24)

# ---------------------------------------------------------------- temporary allocator (mode 2)
TEMP_HEAP = 0x80 + 4 * 96
add('temp-nesting', ['C14', 'C06'], 'temp', 'temp_step.c', config='release', defines=['CASE=1', 'HEAP_SIZE=%d' % TEMP_HEAP, 'IR_HOOK_MALLOC', 'MAXB=2'], unwind=10, timeout=300, threads=2,
    desc='two nested temporary_allocators on the thread stack obtained from get_temporary_stack(): allocation sizes symbolic, optional shrink_to_fit; stack restored exactly',
    bounds='3 allocations of 0..40 bytes, initial stack 64 bytes, heap objects <= 96 bytes')
TEMP_SKIP = {(1, 3, 0), (2, 3, 0), (1, 0, 1), (1, 1, 1), (1, 3, 1), (1, 4, 1), (2, 0, 1), (2, 1, 1), (2, 3, 1), (2, 4, 1), (1, 4, 0), (2, 4, 0)}
for tseq in range(4):
    for aseq in range(9):
        for ex in (0, 1):
            tier = 'thorough' if (tseq, aseq, ex) in TEMP_SKIP else 'quick'
            if tier == 'thorough': continue      # these schedules do not decide within the budget (see DESIGN.md C14)
            add('temp-sched-t%d-a%d%s' % (tseq, aseq, '-exit' if ex else ''), ['C14'], 'temp', 'temp_step.c', config='release',
                defines=['CASE=2', 'STEPS=2', 'TSEQ=%d' % tseq, 'ASEQ=%d' % aseq, 'HEAP_SIZE=%d' % TEMP_HEAP, 'IR_HOOK_MALLOC', 'MAXB=2'] + (['CHECK_EXIT'] if ex else []),
                unwind=10, timeout=600, threads=2, model_only=True, mem_gb=10,
                desc='stack list schedule: threads %s, actions %s (0 use, 1 initializer scope, 2 thread exit)%s' % ([tseq & 1, tseq >> 1 & 1], [aseq % 3, aseq // 3], ', then program exit' if ex else ''),
                bounds='2 threads, 2 steps at API granularity (schedule is a constant of the query), thread_local state modelled per thread')

# ---------------------------------------------------------------- fixed block sources, static / virtual memory allocators
BL = {1: ('static_block_allocator', ['C01', 'C03', 'C05', 'C12', 'C16', 'C18']), 2: ('virtual_block_allocator', ['C01', 'C03', 'C05', 'C12', 'C16']),
      3: ('static_allocator', ['C01', 'C02', 'C03', 'C18']), 4: ('virtual_memory_allocator', ['C01', 'C03', 'C05', 'C09', 'C18'])}
for case, (nm, props) in BL.items():
    for cfg, tier in (('ptr', 'quick'), ('check', 'quick'), ('baseline', 'thorough'), ('debug8', 'thorough')):
        if case == 4 and cfg in ('baseline', 'debug8'): continue     # page-sized fills of the phantom pages: not modelled
        add('blocks-%d-%s' % (case, cfg), props, 'blocks', 'blocks_step.c', config=cfg, defines=['CASE=%d' % case, 'HEAP_SIZE=384', 'IR_HOOK_MMAP', 'IR_HOOK_MALLOC'],
            unwind=8, timeout=300, tier=tier, desc='%s: one operation from an arbitrary valid state (allocate, LIFO release, out-of-order release, move + moved-from destructor, destructor)' % nm,
            bounds='<= 4 blocks of 1..2 pages, page size 32 (constant of the query), OS calls may fail, node size <= 255')

# ---------------------------------------------------------------- memory_pool<node_pool | array_pool> inductive steps
PO_OPS = {1: 'ctor', 2: 'allocate_node', 3: 'try_allocate_node', 4: 'deallocate_node', 5: 'try_deallocate_node', 6: 'dtor', 7: 'allocate_array', 8: 'deallocate_array', 9: 'move'}
PO_PROPS = {1: ['C01', 'C03', 'C05', 'C18'], 2: ['C01', 'C02', 'C03', 'C04', 'C15', 'C18'], 3: ['C01', 'C03', 'C04'], 4: ['C01', 'C04', 'C15', 'C18'], 5: ['C08', 'C04'],
            6: ['C05', 'C15'], 7: ['C01', 'C03', 'C04', 'C15'], 8: ['C04', 'C15'], 9: ['C12', 'C05', 'C15']}
def po_jobs(kind, op, config, tier, nsz=16, npb=2, timeout=600, mem=12):
    heap = (2 * 96 + 3 * ((16 + npb * nsz + 15) // 16 * 16) + 16 + 4 * nsz + 15) // 16 * 16
    add('pool-%s-%s-%s-ns%d-n%d' % (kind, PO_OPS[op], config, nsz, npb), PO_PROPS[op], 'pool2', 'pool_step.c', config=config,
        defines=['POOLK=%s' % kind, 'OP=%d' % op, 'NSZ=%d' % nsz, 'NPB=%d' % npb, 'MAXB=4', 'HEAP_SIZE=%d' % heap], unwind=2 * npb + 8, timeout=timeout, tier=tier, mem_gb=mem,
        desc='memory_pool<%s>::%s from an arbitrary valid state' % ('node_pool' if kind == 'pn' else 'array_pool', PO_OPS[op]),
        bounds='1..2 used blocks of %d nodes of %d bytes, every node LIVE or FREE, symbolic chain order / last_dealloc position, symbolic next block size and leak counter, upstream may fail' % (npb, nsz))
for kind in ('pn', 'pa'):
    for op in (1, 2, 3, 4, 5, 6, 9) + ((7, 8) if kind == 'pa' else ()):
        po_jobs(kind, op, 'release', 'quick')
        if op in (2, 4, 6, 7, 8): po_jobs(kind, op, 'baseline', 'thorough', timeout=3000, mem=16)
        if op in (2, 3, 4, 7, 8): po_jobs(kind, op, 'release', 'thorough', nsz=24, npb=3, timeout=3000, mem=16)
for op in (4, 6, 9):
    po_jobs('pn', op, 'baseline', 'quick')
for op in (2, 7, 8):          # leak accounting of the traits-level node / array functions needs a leak-checking configuration
    po_jobs('pa', op, 'leak', 'quick', timeout=1200)

# ---------------------------------------------------------------- real libstdc++ containers on std_allocator over two recording leaves
CONT = {'vec': ('std::vector<long>', []), 'fwd': ('std::forward_list<long>', ['NODE_CONST=w_fwd_node_size_const']), 'lst': ('std::list<long>', ['NODE_CONST=w_lst_node_size_const'])}
CONT_QUICK = [(0, 5), (0, 6), (1, 6), (0, 2), (1, 5), (0, 3), (0, 0), (1, 1)]
CONT_BIG = [(0, 4), (1, 7), (4, 0), (7, 1), (4, 4), (7, 7), (4, 7), (7, 4)]      # copy assignment: needs far more memory
def cont_job(kind, seq, steps, tier, timeout=900, mem=12):
    code = sum(o * 8 ** i for i, o in enumerate(seq))
    add('cont-%s-%s' % (kind, ''.join(map(str, seq))), ['C10'], 'cont', 'cont_step.c', config='release',
        defines=['CONTK=%s' % kind, 'STEPS=%d' % steps, 'SEQ=%d' % code, 'HEAP_SIZE=1024', 'IR_LIST_MODELS', 'MAXB=2'] + CONT[kind][1], unwind=14, timeout=timeout, tier=tier, mem_gb=mem,
        desc='%s with std_allocator<long, leaf>: operations %s on C1 (leaf A) / C2 (leaf A or B, symbolic), then copy-construct, move-construct, destroy all' % (CONT[kind][0], list(seq)),
        bounds='real libstdc++ code; operation sequence is a constant of the query (0 push C1, 1 push C2, 2 pop C1, 3 clear C1, 4 C2=C1, 5 C2=move(C1), 6 swap, 7 C1=C2), element values and the leaf binding symbolic; std::list\'s four out-of-line primitives are 5-line models (rt.c)')
for kind in CONT:
    for seq in CONT_QUICK: cont_job(kind, seq, 2, 'quick')
    for a in range(8):
        for b in range(8):
            if (a, b) in CONT_QUICK: continue
            if kind != 'vec' and (a + b) % 4 != 0: continue          # all pairs for vector, a quarter of them for the node containers
            if 4 in (a, b) or 7 in (a, b):
                if (a, b) in CONT_BIG[:4]: cont_job(kind, (a, b), 2, 'thorough', 3000, 24)     # copy assignment needs far more memory: four representative pairs
                continue
            cont_job(kind, (a, b), 2, 'thorough', 1800, 12)
    for seq in ((0, 1, 6), (0, 5, 0), (0, 0, 5)): cont_job(kind, seq, 3, 'thorough', 3000, 16)

# ---------------------------------------------------------------- C19: bucket selection through the real free_list_array
for fla, lg, mx, minel, hs, tier in (('node_log2', 1, 4096, 8, 512, 'quick'), ('node_id', 0, 24, 8, 512, 'quick'), ('ord_log2', 1, 1024, 8, 512, 'thorough'),
                                     ('ord_id', 0, 16, 8, 512, 'thorough'), ('small_log2', 1, 64, 1, 512, 'thorough'), ('small_id', 0, 6, 1, 512, 'thorough')):
    add('c19-buckets-%s' % fla, ['C19'], 'arith', 'c19_buckets.c', config='release', defines=['FLA=%s' % fla, 'MAXN=%d' % mx, 'MINEL=%d' % minel, 'HEAP_SIZE=%d' % hs] + (['LOG2'] if lg else []),
        unwind=30, timeout=900 if tier == 'quick' else 3000, tier=tier, mem_gb=8 if tier == 'quick' else 24,
        desc='free_list_array<%s>: constructor for a symbolic max node size, get(size) for every size 1..max' % fla, bounds='max node size %d..%d, every size 1..max' % (minel, mx))

# ---------------------------------------------------------------- C13 (b): shared counters and handler pointers are only touched atomically (IR audit)
for grp, cfg in (('lowlevel', 'baseline'), ('temp', 'release')):
    add('c13-atomics-%s' % grp, ['C13'], grp, 'll_step.c', config=cfg, static_audit='atomics', threads=2 if grp == 'temp' else 1, witness=False,
        desc='syntactic audit of the linked LLVM IR: every load/store of the global leak counters, the handler pointers and the temporary stack list head is an atomic instruction',
        bounds='all instructions of the linked module (not a solver query)')

# a block with a full 255-node chunk plus a remainder chunk, inserted into an empty list / below / above an existing chunk
for ns in (1,):
    for have in (0, 1):          # 'below an existing chunk' (have = 2) gives no verdict within 16 GB / 3000 s: outside the claim
        for krem in (1, 3):
            add('sfl-insert_multi-release-ns%d-h%d-k%d' % (ns, have, krem), SFL_PROPS[14], 'freelist', 'sfl_step.c', config='release',
                defines=['OP=14', 'NS_MIN=%d' % ns, 'NS_MAX=%d' % ns, 'HAVE=%d' % have, 'KREM=%d' % krem, 'IR_PHANTOM', 'IR_PHANTOM_ANYORDER', 'HEAP_SIZE=256'],
                unwind=8, unwindset=['ph_find.0:13', 'F__ZN9foonathan6memory6detail22small_free_memory_list6insertEPvm.0:257', 'F__ZN9foonathan6memory6detail22small_free_memory_list6insertEPvm.3:257'],
                timeout=3000, tier='thorough', mem_gb=16,
                desc='small_free_memory_list::insert of a block that yields two chunks (255 + %d nodes), %s' % (krem, ('into an empty list', 'above an existing chunk', 'below an existing chunk')[have]),
                bounds='node size %d; the existing 3-node chunk has a symbolic free chain, cache pointers symbolic; placement constant' % ns)

# ---------------------------------------------------------------- small list: ring-level kernels (more chunks than the step harness)
for cfg, tier in (('release', 'quick'), ('debug8', 'quick')):
    add('sflk-insert_chunks-%s' % cfg, ['C01', 'C04'], 'sflk', 'sfl_chunks.c', config=cfg,
        defines=['NSLOT=6', 'RMAX=3', 'HEAP_SIZE=%d' % (7 * 32)], unwind=8, timeout=600, tier=tier,
        desc='insert_chunks() (anonymous namespace of small_free_list.cpp, real source compiled into the shim unit): link a run of new chunks into an arbitrary ring',
        bounds='6 address-ordered slots, any subset already on the ring, new run of 1..3 interconnected chunks in any gap, base chunk below or above the slots')
def sfl_ring_jobs(op, config, tier, ns, nch, nnodes, lay=0, gap=0, timeout=900):
    csz = (32 + nnodes * ns + 7) // 8 * 8
    add('sfl-ring%d-%s-%s-ns%d-lay%d%d' % (nch, SFL_OPS[op], config, ns, lay, gap), SFL_PROPS[op], 'freelist', 'sfl_step.c', config=config,
        defines=['OP=%d' % op, 'NS_MIN=%d' % ns, 'NS_MAX=%d' % ns, 'LAY=%d' % lay, 'GAP=%d' % gap, 'NCH=%d' % nch, 'NN=%d' % nnodes,
                 'HEAP_SIZE=%d' % (2 * 56 + nch * (csz + 16) + 8)], unwind=max(8, nch + 3), timeout=timeout, tier=tier, mem_gb=8,
        desc='small_free_memory_list::%s one inductive step from an arbitrary valid state with a longer chunk ring (two-ended chunk search)' % SFL_OPS[op],
        bounds='<=%d chunks of <=%d nodes, arbitrary free chains, cache pointers anywhere on the ring, node size %d, layout %d, chunk gap %d' % (nch, nnodes, ns, lay, gap))
for op in (1, 2):
    sfl_ring_jobs(op, 'release', 'quick', 1, 5, 1)
    sfl_ring_jobs(op, 'baseline', 'quick', 3, 4, 2, lay=2, gap=1)
sfl_ring_jobs(11, 'baseline', 'quick', 1, 5, 1)
sfl_ring_jobs(11, 'ptr', 'quick', 3, 4, 2, lay=1, gap=1)
