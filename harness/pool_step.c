/* memory_pool<node_pool | array_pool, growing_block_allocator<hook>> : base case and one inductive step per operation
 * from ANY valid state (C01 C02 C03 C04 C05 C08 C12 C15 C18).
 *   -DPOOLK=pn (node_pool: unordered list unless the double-dealloc check is on) | pa (array_pool: ordered list)
 *   -DNSZ=node size (constant of the query)   -DOP=...
 * State: 1..2 used blocks (concrete slots), each fully carved into NPB nodes of NSZ bytes; every node symbolically
 * LIVE or FREE; the free list chains the free nodes (unordered: symbolic order; ordered: by address, xor-linked through the
 * sentinels in the list object, symbolic last_dealloc position); symbolic next block size and leak counter. */
#include "hooks_common.h"

#define PASTE2(a, b, c) a##b##c
#define PASTE(a, b, c) PASTE2(a, b, c)
#define PF(f) PASTE(w_, POOLK, _##f)
#ifndef NSZ
#define NSZ 16
#endif
#ifndef NPB
#define NPB 2
#endif
#define S (2 * NPB)
#define OBJ 96

#define OP_CTOR 1
#define OP_ALLOC 2
#define OP_TRY_ALLOC 3
#define OP_DEALLOC 4
#define OP_TRY_DEALLOC 5
#define OP_DTOR 6
#define OP_ALLOC_ARRAY 7
#define OP_DEALLOC_ARRAY 8
#define OP_MOVE 9

static uint64_t L, L2, IO, B[3], bsz[3], LST;
static int ku, ordered;
static uint64_t slot[S]; static int nslots;
static uint32_t pre;

static uint64_t ofl_begin(uint64_t l) { return l + w_off_ofl_begin(); }
static uint64_t ofl_end(uint64_t l) { return l + w_off_ofl_end(); }

static void establish(uint64_t obj)
{
    ku = nondet_u8(); ASSUME(ku >= 1 && ku <= 2);
    bsz[0] = IO + NPB * NSZ; bsz[1] = IO + NPB * NSZ;
    B[0] = HEAP_BASE + 2 * OBJ; B[1] = B[0] + ((bsz[0] + 15) & ~UINT64_C(15)); B[2] = B[1] + ((bsz[1] + 15) & ~UINT64_C(15));
    nslots = 0;
    for (int b = 0; b < 2; ++b) if (b < ku) for (int i = 0; i < NPB; ++i) slot[nslots++] = B[b] + IO + (uint64_t)i * NSZ;
    w_node_write(B[0], 0, bsz[0] - IO); ledger_add(B[0], bsz[0]);
    if (ku == 2) { w_node_write(B[1], B[0], bsz[1] - IO); ledger_add(B[1], bsz[1]); }
    uint64_t next_bs = nondet_u8(); ASSUME(next_bs >= bsz[ku - 1] && next_bs <= IO + 4 * NSZ && ((next_bs - IO) % NSZ) == 0);
    int64_t leaked = (int64_t)(int8_t)nondet_u8();
#if !CFG_LEAK
    leaked = 0;
#endif
    PF(set)(obj, ku == 1 ? B[0] : B[1], next_bs, 5, leaked);
    LST = PF(list)(obj);
    /* free set and chain */
    uint8_t fr[S], cap = 0; pre = 0;
    for (int i = 0; i < S; ++i) if (i < nslots) { fr[i] = nondet_u8() & 1; if (fr[i]) { pre |= 1u << i; cap++; } }
    if (!ordered) {
        /* unordered: push each free slot at the front or the back of the chain (symbolic) */
        uint64_t first = 0, last = 0;
        for (int i = 0; i < S; ++i) if (i < nslots && fr[i]) {
            uint8_t front = nondet_u8() & 1;
            if (first == 0) { first = last = slot[i]; HS64(slot[i], 0); }
            else if (front) { HS64(slot[i], first); first = slot[i]; }
            else { HS64(last, slot[i]); HS64(slot[i], 0); last = slot[i]; }
        }
        HS64(LST + w_off_fl_first(), first); HS64(LST + w_off_fl_node_size(), NSZ); HS64(LST + w_off_fl_capacity(), cap);
    } else {
        uint64_t prev = 0, cur = ofl_begin(LST);
        uint8_t j = nondet_u8(); ASSUME(j <= cap);
        uint64_t pj = ofl_begin(LST), nj = ofl_end(LST); int seen = 0;
        for (int i = 0; i < S; ++i) if (i < nslots && fr[i]) {
            HS64(cur, prev ^ slot[i]); prev = cur; cur = slot[i];
            seen++;
            if (seen == j) pj = slot[i];
            if (seen == j + 1) nj = slot[i];
        }
        HS64(cur, prev ^ ofl_end(LST));
        HS64(ofl_end(LST), cur);
        HS64(LST + w_off_ofl_node_size(), NSZ); HS64(LST + w_off_ofl_capacity(), cap);
        HS64(LST + w_off_ofl_last_dealloc_prev(), pj); HS64(LST + w_off_ofl_last_dealloc(), nj);
    }
}

/* walk the list: mask over the pre-state slots; nodes outside them must lie in the fresh block (counted in *extra) */
static uint64_t fresh_lo, fresh_hi;
static uint32_t walk(uint64_t lst, int* extra)
{
    uint32_t m = 0; uint64_t n = 0; *extra = 0;
    if (!ordered) {
        uint64_t p = H64(lst + w_off_fl_first()); int done = 0;
        for (int k = 0; k < S + 6; ++k) if (!done) {
            if (p == 0) done = 1;
            else {
                int g = -1; for (int i = 0; i < S; ++i) if (i < nslots && slot[i] == p) g = i;
                if (g >= 0) { ASSERT(!(m >> g & 1), "Inv: no node twice on the free list"); m |= 1u << g; }
                else { ASSERT(p >= fresh_lo && p + NSZ <= fresh_hi && (p - fresh_lo) % NSZ == 0, "C01: every other free node is a node of the newly acquired block"); (*extra)++; }
                ++n; p = H64(p);
            }
        }
        ASSERT(done, "Inv: free list null-terminated within the bound");
        ASSERT(H64(lst + w_off_fl_capacity()) == n, "Inv: capacity_ equals the number of free nodes");
    } else {
        uint64_t prev = ofl_begin(lst), p = H64(ofl_begin(lst)), last = 0; int done = 0, seen_ld = 0;
        uint64_t ldp = H64(lst + w_off_ofl_last_dealloc_prev()), ld = H64(lst + w_off_ofl_last_dealloc());
        if (ldp == prev && ld == p) seen_ld = 1;
        for (int k = 0; k < S + 6; ++k) if (!done) {
            if (p == ofl_end(lst)) done = 1;
            else {
                int g = -1; for (int i = 0; i < S; ++i) if (i < nslots && slot[i] == p) g = i;
                if (g >= 0) { ASSERT(!(m >> g & 1), "Inv: no node twice on the free list"); m |= 1u << g; }
                else { ASSERT(p >= fresh_lo && p + NSZ <= fresh_hi && (p - fresh_lo) % NSZ == 0, "C01: every other free node is a node of the newly acquired block"); (*extra)++; }
                ASSERT(last == 0 || last < p, "Inv: ordered list strictly increasing");
                last = p; ++n;
                uint64_t nx = H64(p) ^ prev; prev = p; p = nx;
                if (ldp == prev && ld == p) seen_ld = 1;
            }
        }
        ASSERT(done, "Inv: ordered list reaches the end sentinel within the bound");
        ASSERT(H64(ofl_end(lst)) == prev, "Inv: end sentinel links back to the last node");
        ASSERT(seen_ld, "Inv: (last_dealloc_prev_, last_dealloc_) adjacent pair");
        ASSERT(H64(lst + w_off_ofl_capacity()) == n, "Inv: capacity_ equals the number of free nodes");
    }
    return m;
}

static void check_blocks(uint64_t obj, int expect_new)
{
    uint64_t p = PF(used)(obj);
    if (expect_new) { ASSERT(p == B[ku], "Inv: the new block is on top of the used stack"); ASSERT(w_node_usable(p) == up_last_req - IO, "Inv: new block header"); p = w_node_prev(p); }
    for (int b = 1; b >= 0; --b) if (b < ku) { ASSERT(p == B[b] && w_node_usable(p) == bsz[b] - IO, "Inv: block headers intact"); p = w_node_prev(p); }
    ASSERT(p == 0, "Inv: used stack null-terminated");
}

void harness(void)
{
    HAVOC_HEAP();
    w_install_handlers();
    IO = w_impl_offset();
    L = HEAP_BASE; L2 = HEAP_BASE + OBJ;
    ordered = (int)PF(list_is_ordered)();
    ASSERT(PF(sizeof)() <= OBJ, "object fits the harness slot");
    int extra; uint32_t post;
#if OP == OP_CTOR
    uint64_t nreq = nondet_u8(), bs = nondet_u8(); ASSUME(nreq >= 1 && nreq <= NSZ && NSZ >= 8 && bs >= IO + NSZ && bs <= IO + 4 * NSZ);
    fresh_addr[0] = HEAP_BASE + 2 * OBJ; n_fresh = 1; nslots = 0; ku = 0;
    CLEAR_EXC();
    PF(ctor)(L, NSZ, bs, 5);
    if (EXC) { ASSERT(exc_is(XK_OOM) && n_oom == 1 && outstanding() == 0, "C03/C05: failed construction"); }
    else {
        fresh_lo = fresh_addr[0] + IO; fresh_hi = fresh_addr[0] + bs;
        post = walk(PF(list)(L), &extra);
        ASSERT(post == 0 && (uint64_t)extra == (bs - IO) / NSZ, "ctor: the whole first block is carved into floor(usable / node_size) free nodes");
        ASSERT(PF(capacity_left)(L) == (uint64_t)extra * NSZ && PF(node_size)(L) == NSZ, "C18: capacity_left() = free nodes * node_size()");
        ASSERT(PF(min_block_size)(NSZ, 3) == IO + 3 * NSZ, "C18: min_block_size(ns, n) = header + n nodes");
        ASSERT(PF(next_capacity)(L) == ((2 * bs - IO) / NSZ) * NSZ, "C18: next_capacity() = usable node bytes of the next block");
    }
#else
    establish(L);
    fresh_addr[0] = B[ku]; n_fresh = 1;
    uint64_t next_bs = PF(next_bs)(L);
    fresh_lo = B[ku] + IO; fresh_hi = B[ku] + next_bs;
    ASSUME(IN_HEAP(B[ku], next_bs));
    uint64_t wa = HEAP_BASE + (uint64_t)nondet_u16(); ASSUME(IN_HEAP(wa, 1));
    { int ok = 0;     /* witness: a byte of a LIVE node or of a block header */
      for (int i = 0; i < S; ++i) if (i < nslots && !(pre >> i & 1) && wa >= slot[i] && wa < slot[i] + NSZ) ok = 1;
      for (int b = 0; b < 2; ++b) if (b < ku && wa >= B[b] && wa < B[b] + IO) ok = 1;
      ASSUME(ok); }
    uint8_t wv = H8(wa);
    int64_t leak0 = PF(leaked)(L);
    uint64_t cap0 = PF(capacity_left)(L);
    int npre = 0; for (int i = 0; i < S; ++i) npre += pre >> i & 1;
    ASSERT(cap0 == (uint64_t)npre * NSZ, "C18: capacity_left() = free nodes * node_size()");
    uint64_t size = nondet_u8(); ASSUME(size >= 1 && size <= NSZ);
    uint64_t al = NSZ & (~(uint64_t)NSZ + 1); if (al > 16) al = 16;
    int ups = n_up_alloc;
    CLEAR_EXC();
#if OP == OP_ALLOC || OP == OP_TRY_ALLOC
#if OP == OP_ALLOC
    uint64_t p = PF(allocate_node)(L, size, al);
    if (EXC) { ASSERT(exc_is(XK_OOM) && n_oom == 1 && pre == 0, "C03: allocate_node throws only when the list is empty and the upstream fails"); }
    else ASSERT(p != 0, "C03: the throwing allocate_node never returns null");
#else
    up_alloc_forbidden = 1;
    uint64_t p = PF(try_allocate_node)(L, size, al);
    ASSERT(!EXC && n_up_alloc == ups, "C03: try_allocate_node never throws and never grows the pool");
    ASSERT((p == 0) == (pre == 0), "C03: try_allocate_node returns null exactly when no node is free");
#endif
    int grew = n_up_alloc > ups && fresh_used == 1;
    if (pre != 0) ASSERT(n_up_alloc == ups, "C04: no upstream request while the free list still holds a node");
    if (n_up_alloc > ups) ASSERT(up_last_req == next_bs, "growth requests next_block_size bytes");
    post = walk(LST, &extra);
    check_blocks(L, grew);
    if (!EXC && p != 0) {
        int g = -1; for (int i = 0; i < S; ++i) if (i < nslots && slot[i] == p) g = i;
        if (g >= 0) { ASSERT(pre >> g & 1, "C01: the node handed out was free (not a live allocation)"); ASSERT(post == (pre & ~(1u << g)) && extra == 0, "C01: exactly that node left the list"); }
        else { ASSERT(grew && p >= fresh_lo && p + NSZ <= fresh_hi && (p - fresh_lo) % NSZ == 0, "C01: otherwise a node of the new block");
               ASSERT(post == pre && (uint64_t)extra == (next_bs - IO) / NSZ - 1, "C04/C18: the new block contributes all its other nodes"); }
        ASSERT((p & (al - 1)) == 0, "C02: node aligned for alignment_for(node_size)");
#if CFG_LEAK
        if (OP == OP_ALLOC) ASSERT(PF(leaked)(L) == leak0 + (int64_t)size, "C15: allocate_node counts the requested size");
#endif
        if (!grew) ASSERT(PF(capacity_left)(L) == cap0 - NSZ, "C18: capacity_left() drops by exactly one node");
    } else { ASSERT(post == pre && extra == 0 && PF(leaked)(L) == leak0, "C03: a failed request changes nothing"); }
    ASSERT(H8(wa) == wv, "C01: live nodes and block headers untouched");
    { uint64_t big = NSZ + 1 + nondet_u8(); CLEAR_EXC(); n_badsize = 0; uint64_t q = PF(allocate_node)(L, big, 1);
      ASSERT(EXC && exc_is(XK_BADSIZE) && q == 0, "C18: a node request above max_node_size() never succeeds (bad_node_size)"); }
#elif OP == OP_DEALLOC || OP == OP_TRY_DEALLOC
    uint8_t i = nondet_u8(); ASSUME(i < nslots && !(pre >> i & 1));
    ASSUME(!(wa >= slot[i < S ? i : 0] && wa < slot[i < S ? i : 0] + NSZ));
    wv = H8(wa);
#if OP == OP_DEALLOC
    PF(deallocate_node)(L, slot[i < S ? i : 0], size, al);
#else
    ASSERT(PF(try_deallocate_node)(L, slot[i < S ? i : 0], size, al) == 1, "C08: try_deallocate_node accepts the pool's own node");
    { uint64_t f = HEAP_BASE + (uint64_t)nondet_u16(); ASSUME(IN_HEAP(f, 1));
      int own = 0; for (int b = 0; b < 2; ++b) if (b < ku && f >= B[b] + IO && f < B[b] + bsz[b]) own = 1;
      if (!own) { uint32_t keep = walk(LST, &extra); ASSERT(PF(try_deallocate_node)(L, f, size, al) == 0, "C08: try_deallocate_node rejects a pointer outside the pool's blocks");
                  ASSERT(walk(LST, &extra) == keep, "C08: a rejected release changes nothing"); } }
#endif
    post = walk(LST, &extra);
    check_blocks(L, 0);
    ASSERT(post == (pre | 1u << i) && extra == 0, "C04: release adds exactly the node");
    ASSERT(PF(capacity_left)(L) == cap0 + NSZ, "C18: capacity_left() grows by exactly one node");
#if CFG_LEAK
#if OP == OP_DEALLOC
    ASSERT(PF(leaked)(L) == leak0 - (int64_t)size, "C15: deallocate_node subtracts the size");
#else
    ASSERT(PF(leaked)(L) == leak0, "C15: the composable interface does not take part in leak counting (neither try_allocate nor try_deallocate)");
#endif
#endif
    ASSERT(H8(wa) == wv && n_up_alloc == ups && n_up_dealloc == 0, "C01: other live nodes untouched, no upstream traffic");
#elif OP == OP_DTOR
    n_leak = 0;
    PF(dtor)(L);
    ASSERT(outstanding() == 0 && n_up_dealloc == ku, "C05: destructor returns every block exactly once, newest first");
#if CFG_LEAK
    ASSERT(n_leak == (leak0 != 0), "C15: leak handler once iff the net count is non-zero");
    if (leak0 != 0) ASSERT(leak_amount == leak0, "C15: with the exact net amount");
#endif
#elif OP == OP_ALLOC_ARRAY
    uint8_t cnt = nondet_u8(); ASSUME(cnt >= 1 && cnt <= 3);
    uint64_t bytes = cnt * size, nodes = (bytes + NSZ - 1) / NSZ;
    uint64_t p = PF(allocate_array)(L, cnt, size, al);
    int grew = n_up_alloc > ups && fresh_used == 1;
    if (EXC) ASSERT(exc_is(XK_OOM) || exc_is(XK_BADSIZE), "C03: failure signalled by the library's exceptions");
    else {
        ASSERT(p != 0, "C03: the throwing allocate_array never returns null");
        post = walk(LST, &extra);
        uint32_t run = 0; int inold = 1;
        for (uint64_t k2 = 0; k2 < 3; ++k2) if (k2 < nodes) { int g = -1; for (int i = 0; i < S; ++i) if (i < nslots && slot[i] == p + k2 * NSZ) g = i; if (g < 0) inold = 0; else run |= 1u << g; }
        if (inold) { ASSERT((run & ~pre) == 0, "C01: every node of the array was free"); ASSERT(post == (pre & ~run), "C04: exactly ceil(bytes / node_size) nodes left the list"); }
        else { ASSERT(grew && p >= fresh_lo && p + nodes * NSZ <= fresh_hi, "C01: otherwise the array lies in the new block"); ASSERT(post == pre, "the old nodes stay"); }
#if CFG_LEAK
        ASSERT(PF(leaked)(L) == leak0 + (int64_t)bytes, "C15: allocate_array counts count*size");
#endif
    }
    ASSERT(H8(wa) == wv, "C01: live nodes and block headers untouched");
#elif OP == OP_DEALLOC_ARRAY
    uint8_t cnt = nondet_u8(), i = nondet_u8(); ASSUME(cnt >= 1 && cnt <= 3 && i < nslots);
    uint64_t bytes = cnt * size, nodes = (bytes + NSZ - 1) / NSZ; uint32_t run = 0;
    for (uint64_t k2 = 0; k2 < 3; ++k2) if (k2 < nodes) { ASSUME(i + k2 < (uint64_t)nslots && slot[(i + k2) < S ? i + k2 : 0] == slot[i < S ? i : 0] + k2 * NSZ && !(pre >> (i + k2) & 1)); run |= 1u << (i + k2); }
    for (int s2 = 0; s2 < S; ++s2) if (run >> s2 & 1) ASSUME(!(wa >= slot[s2] && wa < slot[s2] + NSZ));
    wv = H8(wa);
    PF(deallocate_array)(L, slot[i < S ? i : 0], cnt, size, al);
    post = walk(LST, &extra);
    ASSERT(post == (pre | run) && extra == 0, "C04: deallocate_array gives back every node the array occupied");
#if CFG_LEAK
    ASSERT(PF(leaked)(L) == leak0 - (int64_t)bytes, "C15: deallocate_array subtracts count*size");
#endif
    ASSERT(H8(wa) == wv, "C01: other live nodes untouched");
#elif OP == OP_MOVE
    PF(move_ctor)(L2, L);
    post = walk(PF(list)(L2), &extra);
    check_blocks(L2, 0);
    ASSERT(post == pre && extra == 0 && PF(leaked)(L2) == leak0, "C12: the destination owns blocks, free nodes and the leak count");
    STOP_IS_FAILURE = 1; n_leak = 0;
    PF(dtor)(L);
    ASSERT(n_up_dealloc == 0 && n_leak == 0, "C12: destroying the moved-from pool touches nothing");
    PF(dtor)(L2);
    ASSERT(outstanding() == 0, "C05/C12: the new owner returns every block once");
#endif
#endif
    ASSERT(n_invptr == 0, "C16: no invalid-pointer report on valid use");
    WITNESS_END();
}
