/* detail::lowlevel_allocator<Functor> and malloc_allocator over an OS hook (C17 fences and fill, C15 stateless leak counter, C01/C02/C03 low level).
 *  -DCASE=1 allocate_node / corrupt or not / deallocate_node    -DCASE=2 global leak counter with k counter objects
 *  -DWHICH=0 lowlevel_allocator<hook functor>   -DWHICH=1 malloc_allocator */
#include "hooks_common.h"
#ifndef WHICH
#define WHICH 0
#endif
#if WHICH == 0
#define ALLOC w_ll_allocate_node
#define DEALLOC w_ll_deallocate_node
#else
#define ALLOC w_malloc_allocate_node
#define DEALLOC w_malloc_deallocate_node
#endif
#ifndef SMAX
#define SMAX 24
#endif
static uint64_t os_addr, os_size_req, os_al_req, os_free_ptr, os_free_size; static int n_os_alloc, n_os_free, os_fail;
uint64_t verif_os_alloc(uint64_t size, uint64_t al) { n_os_alloc++; os_size_req = size; os_al_req = al; if (os_fail) return 0; ASSUME(IN_HEAP(os_addr, size)); return os_addr; }
void verif_os_free(uint64_t p, uint64_t size, uint64_t al) { (void)al; n_os_free++; os_free_ptr = p; os_free_size = size; }

void harness(void)
{
    HAVOC_HEAP();
    w_install_handlers();
    uint64_t F = w_fence() ? w_max_alignment() : 0;      /* fence on each side: max_alignment bytes whenever the option is non-zero */
#if CASE == 1
    uint64_t size = nondet_u8(), k = nondet_u8(); ASSUME(size >= 1 && size <= SMAX && k <= 4);
    uint64_t al = UINT64_C(1) << k;
    os_addr = HEAP_BASE + 16 * (uint64_t)(nondet_u8() & 3);      /* what the OS returns: max_alignment aligned */
    os_fail = nondet_u8() & 1;
    CLEAR_EXC();
    uint64_t p = ALLOC(size, al);
    ASSERT(n_os_alloc == 1 && os_size_req == size + 2 * F, "C09/C17: one OS request for size + 2 fences");
    if (os_fail) {
        ASSERT(EXC && exc_is(XK_OOM) && n_oom == 1, "C03: OS failure becomes out_of_memory, handler called once, never a null return");
    } else {
        ASSERT(!EXC && p == os_addr + F, "C01: the node starts right behind the front fence, inside the OS block");
        ASSERT((p & (al - 1)) == 0 && (p & 15) == 0, "C02: the fence shift keeps max_alignment");
#if CFG_FILL
        { uint64_t j = nondet_u8(); ASSUME(j < size); ASSERT(H8(p + j) == 0xCD, "C17: the node carries the new-memory pattern"); }
        if (F) { uint64_t j = nondet_u8(); ASSUME(j < F); ASSERT(H8(os_addr + j) == 0xFD && H8(p + size + j) == 0xFD, "C17: both fences carry the fence pattern"); }
#endif
        /* the user writes: up to two bytes, anywhere in [front fence, node, back fence] */
        uint64_t o1 = nondet_u8(), o2 = nondet_u8(); uint8_t v1 = nondet_u8(), v2 = nondet_u8();
        ASSUME(o1 < size + 2 * F && o2 < size + 2 * F && o1 <= o2);
        uint8_t nwr = nondet_u8() & 3;
        if (nwr >= 1) HS8(os_addr + o1, v1);
        if (nwr >= 2) HS8(os_addr + o2, v2);
        /* first corrupted fence byte, front fence first */
        uint64_t first = 0;
#if CFG_FILL
        if (F) {
            uint64_t c1 = nwr >= 1 && !(nwr >= 2 && o2 == o1) ? (v1 != 0xFD) : 0;     /* byte o1 finally holds v2 if overwritten */
            uint64_t a1 = os_addr + o1, a2 = os_addr + o2;
            int in_f1 = o1 < F || o1 >= F + size, in_f2 = o2 < F || o2 >= F + size;
            int bad1 = nwr >= 1 && in_f1 && ((nwr >= 2 && o2 == o1) ? v2 != 0xFD : v1 != 0xFD);
            int bad2 = nwr >= 2 && in_f2 && v2 != 0xFD;
            (void)c1;
            if (bad1 && o1 < F) first = a1; else if (bad2 && o2 < F) first = a2;
            uint64_t first_pre = first;
            uint64_t first_post = 0;
            if (bad1 && o1 >= F + size) first_post = a1; else if (bad2 && o2 >= F + size) first_post = a2;
            DEALLOC(p, size, al);
            ASSERT(n_overflow == (first_pre != 0) + (first_post != 0), "C17: the overflow handler runs exactly for the fences that were written into, never for in-bounds writes");
            if (first_post != 0) ASSERT(ovf_mem == p && ovf_size == size && ovf_ptr == first_post, "C17: handler gets the node, its size and the first corrupted byte of the back fence");
            if (first_pre != 0 && first_post == 0) ASSERT(ovf_mem == p && ovf_size == size && ovf_ptr == first_pre, "C17: handler gets the first corrupted byte of the front fence");
        } else
#endif
        {
            DEALLOC(p, size, al);
            ASSERT(n_overflow == 0, "C17: without fences (or without fill) nothing is reported");
        }
        ASSERT(n_os_free == 1 && os_free_ptr == os_addr && (WHICH == 1 || os_free_size == size + 2 * F), "C01/C09: the OS block is given back as obtained");
    }
#elif CASE == 2
    /* stateless allocators: k counter objects (one per TU), a series of on_allocate/on_deallocate, counters die in any order:
       the handler runs once, when the last counter dies, iff the net is non-zero, with the net */
    uint64_t C0 = HEAP_BASE, C1 = HEAP_BASE + 8, C2 = HEAP_BASE + 16;
    uint8_t kk = nondet_u8(); ASSUME(kk >= 1 && kk <= 3);
    w_counter_ctor(C0); if (kk >= 2) w_counter_ctor(C1); if (kk >= 3) w_counter_ctor(C2);
    int64_t net = 0;
    for (int i = 0; i < 3; ++i) {
        uint8_t op = nondet_u8() & 3; uint64_t n = nondet_u8();
        if (op == 1) { w_leak_on_allocate(n); net += (int64_t)n; }
        if (op == 2) { w_leak_on_deallocate(n); net -= (int64_t)n; }
    }
    n_leak = 0;
    if (kk >= 3) { w_counter_dtor(C2); ASSERT(n_leak == 0, "C15: no report while another counter object lives"); }
    if (kk >= 2) { w_counter_dtor(C1); ASSERT(n_leak == 0, "C15: no report while another counter object lives"); }
    w_counter_dtor(C0);
#if CFG_LEAK
    ASSERT(n_leak == (net != 0), "C15: the process-wide net is reported once, when the last counter dies, iff it is non-zero");
    if (net != 0) ASSERT(leak_amount == net, "C15: with the exact net amount");
#else
    ASSERT(n_leak == 0, "C15: no report without leak checking");
#endif
#endif
    WITNESS_END();
}
