"""per-property level texts for MANIFEST.json"""
NOTE = ('Bounded: every verdict holds for all inputs/states inside the bounds listed per query in the evidence (node slots, node sizes, '
        'heap size, loop unwindings checked by --unwinding-assertions) and says nothing outside them. Trusted: clang 14 -O1 IR as the '
        'semantics, tools/ir2c.py, CBMC 6.11 + SAT solver, the runtime stubs listed in the evidence, the representation invariants '
        'written in the harnesses (base case and preservation are themselves checked).')
TEXT = {
 'C19': {'text': 'Every arithmetic kernel (round_up, align_offset, is_aligned, alignment_for, ilog2 family, access policies) is compared with its '
                 'mathematical definition for ALL 64-bit inputs and all 64 power-of-two alignments by the SAT solver; these kernels are loop-free so no '
                 'unwinding bound applies. Bucket selection of free_list_array is checked for all sizes up to the stated maximum.', 'note': NOTE},
 'C01': {'text': 'One-step induction: from ANY state of each data structure that satisfies its representation invariant (bounded number of node slots / '
                 'blocks), every operation re-establishes the invariant, hands out only memory that was free and inside owned blocks, and leaves a '
                 'symbolic witness byte outside the bytes it may touch unchanged. Histories of any length follow by induction; what is bounded is the '
                 'size of the state, not the length of the history.', 'note': NOTE},
 'C02': {'text': 'Same inductive steps as C01 with assertions on the result: non-null, aligned for the requested/promised alignment, '
                 'count*size contiguous bytes inside the run removed from the free list or inside the block.', 'note': NOTE},
 'C04': {'text': 'Free-list level mask algebra from arbitrary valid states: allocate(n) removes exactly ceil(n/node_size) address-contiguous free nodes and '
                 'deallocate(p, n) adds exactly those back; single-node allocate/deallocate likewise; capacity_ equals the number of reachable nodes '
                 '(the structural self-check is the invariant itself, no hook needed).', 'note': NOTE},
 'C12': {'text': 'Move construction, move assignment and swap from arbitrary valid source/target states at distinct addresses: destination owns '
                 'exactly the source state, source is a valid empty object, no pool byte outside link words changes.', 'note': NOTE},
 'C16': {'text': 'From arbitrary valid states: a release of an already-free node in double-free-checking builds reaches the invalid-pointer handler '
                 '(or stops) with the offending pointer; every valid operation in every harness asserts the handler was not called.', 'note': NOTE},
 'C17': {'text': 'Fill patterns: after allocate the whole node carries the new-memory pattern, after deallocate the freed pattern outside the link word, '
                 'a witness byte in neighbouring live memory is unchanged; fences of the low-level allocators with a symbolic corrupted offset.', 'note': NOTE},
 'C18': {'text': 'min_block_size formulas against the number of nodes insert() really produces (symbolic node size and count), counter deltas in '
                 'the C01/C04 steps, maxima as upper bounds.', 'note': NOTE},
}
NOT_APPLICABLE = {}
