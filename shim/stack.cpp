// shim group "stack": memory_block_stack, memory_arena, block allocators, memory_stack, iteration_allocator
#include "hooks.hpp"
#include <foonathan/memory/memory_stack.hpp>
#include <foonathan/memory/iteration_allocator.hpp>
#include <foonathan/memory/static_allocator.hpp>

using namespace foonathan::memory;
using namespace vshim;

W void w_install_handlers() { install_handlers(); }
W ulong w_impl_offset() { return detail::memory_block_stack::implementation_offset(); }
W ulong w_fence() { return detail::debug_fence_size; }

// ---------------------------------------------------------------- memory_block_stack
using mbs = detail::memory_block_stack;
W ulong w_mbs_sizeof() { return sizeof(mbs); }
W void w_mbs_set_head(void* o, void* head) { static_cast<mbs*>(o)->head_ = static_cast<mbs::node*>(head); }
W void* w_mbs_head(void* o) { return static_cast<mbs*>(o)->head_; }
W void w_node_write(void* n, void* prev, ulong usable)
{
    auto* p = static_cast<mbs::node*>(n);
    p->prev = static_cast<mbs::node*>(prev);
    p->usable_size = usable;
}
W void* w_node_prev(void* n) { return static_cast<mbs::node*>(n)->prev; }
W ulong w_node_usable(void* n) { return static_cast<mbs::node*>(n)->usable_size; }
W void w_mbs_push(void* o, void* mem, ulong size) { static_cast<mbs*>(o)->push(memory_block(mem, size)); }
W void* w_mbs_pop(void* o, ulong* size)
{
    auto b = static_cast<mbs*>(o)->pop();
    *size = b.size;
    return b.memory;
}
W void w_mbs_steal_top(void* o, void* other) { static_cast<mbs*>(o)->steal_top(*static_cast<mbs*>(other)); }
W void* w_mbs_top(void* o, ulong* size)
{
    auto b = static_cast<mbs*>(o)->top();
    *size = b.size;
    return b.memory;
}
W ulong w_mbs_owns(void* o, void* p) { return static_cast<mbs*>(o)->owns(p); }
W ulong w_mbs_size(void* o) { return static_cast<mbs*>(o)->size(); }
W ulong w_mbs_empty(void* o) { return static_cast<mbs*>(o)->empty(); }
W void w_mbs_move_ctor(void* o, void* from) { ::new (o) mbs(detail::move(*static_cast<mbs*>(from))); }
W void w_mbs_move_assign(void* o, void* from) { *static_cast<mbs*>(o) = detail::move(*static_cast<mbs*>(from)); }

// ---------------------------------------------------------------- memory_arena<hook_block, cached / uncached>
template <bool C>
using arena_t = memory_arena<hook_block, C>;
#define ARENA(P, C)                                                                                 \
    W ulong w_##P##_sizeof() { return sizeof(arena_t<C>); }                                         \
    W void w_##P##_ctor(void* o, ulong bs, ulong id) { VTRY ::new (o) arena_t<C>(bs, id); VCATCH() } \
    W void w_##P##_dtor(void* o) { static_cast<arena_t<C>*>(o)->~arena_t<C>(); }                   \
    W void w_##P##_set(void* o, void* used, void* cached, ulong bs)                                 \
    {                                                                                               \
        auto* a = static_cast<arena_t<C>*>(o);                                                      \
        a->used_.head_ = static_cast<mbs::node*>(used);                                             \
        static_cast<hook_block&>(*a).block_size = bs;                                               \
        w_##P##_set_cached(a, cached);                                                              \
    }                                                                                               \
    W void* w_##P##_used(void* o) { return static_cast<arena_t<C>*>(o)->used_.head_; }             \
    W void* w_##P##_allocate_block(void* o, ulong* size)                                            \
    {                                                                                               \
        VTRY auto b = static_cast<arena_t<C>*>(o)->allocate_block();                                \
        *size = b.size;                                                                             \
        return b.memory;                                                                            \
        VCATCH(nullptr)                                                                             \
    }                                                                                               \
    W void w_##P##_deallocate_block(void* o) { static_cast<arena_t<C>*>(o)->deallocate_block(); }  \
    W void* w_##P##_current_block(void* o, ulong* size)                                             \
    {                                                                                               \
        auto b = static_cast<arena_t<C>*>(o)->current_block();                                      \
        *size = b.size;                                                                             \
        return b.memory;                                                                            \
    }                                                                                               \
    W ulong w_##P##_owns(void* o, void* p) { return static_cast<arena_t<C>*>(o)->owns(p); }        \
    W void w_##P##_shrink_to_fit(void* o) { static_cast<arena_t<C>*>(o)->shrink_to_fit(); }        \
    W ulong w_##P##_capacity(void* o) { return static_cast<arena_t<C>*>(o)->capacity(); }          \
    W ulong w_##P##_cache_size(void* o) { return static_cast<arena_t<C>*>(o)->cache_size(); }      \
    W ulong w_##P##_size(void* o) { return static_cast<arena_t<C>*>(o)->size(); }                  \
    W ulong w_##P##_next_block_size(void* o) { return static_cast<arena_t<C>*>(o)->next_block_size(); } \
    W void w_##P##_move_ctor(void* o, void* from) { ::new (o) arena_t<C>(detail::move(*static_cast<arena_t<C>*>(from))); } \
    W void w_##P##_move_assign(void* o, void* from) { *static_cast<arena_t<C>*>(o) = detail::move(*static_cast<arena_t<C>*>(from)); } \
    W void w_##P##_swap(void* a, void* b) { swap(*static_cast<arena_t<C>*>(a), *static_cast<arena_t<C>*>(b)); }

static void w_ac_set_cached(arena_t<true>* a, void* cached)
{
    static_cast<detail::memory_arena_cache<true>&>(*a).cached_.head_ = static_cast<mbs::node*>(cached);
}
static void w_au_set_cached(arena_t<false>*, void*) {}
ARENA(ac, true)
ARENA(au, false)
W void* w_ac_cached(void* o) { return static_cast<detail::memory_arena_cache<true>&>(*static_cast<arena_t<true>*>(o)).cached_.head_; }

// ---------------------------------------------------------------- memory_stack<growing_block_allocator<hook_raw>>
using gba = growing_block_allocator<hook_raw>;
using mstack = memory_stack<gba>;
W ulong w_ms_sizeof() { return sizeof(mstack); }
W ulong w_marker_sizeof() { return sizeof(mstack::marker); }
W void w_ms_ctor(void* o, ulong bs, ulong id) { VTRY ::new (o) mstack(bs, hook_raw(id)); VCATCH() }
W void w_ms_dtor(void* o) { static_cast<mstack*>(o)->~mstack(); }
// writes the complete representation: used/cached block stacks, bump pointer, next block size, upstream id, leak count
W void w_ms_set(void* o, void* used, void* cached, void* cur, ulong next_bs, ulong id, long leaked)
{
    auto* s = static_cast<mstack*>(o);
    s->arena_.used_.head_ = static_cast<mbs::node*>(used);
    static_cast<detail::memory_arena_cache<true>&>(s->arena_).cached_.head_ = static_cast<mbs::node*>(cached);
    static_cast<gba&>(s->arena_).block_size_ = next_bs;
    static_cast<hook_raw&>(static_cast<gba&>(s->arena_)).id = id;
    s->stack_ = detail::fixed_memory_stack(cur);
#if FOONATHAN_MEMORY_DEBUG_LEAK_CHECK
    s->allocated_ = leaked;
#else
    (void)leaked;
#endif
}
W void* w_ms_used(void* o) { return static_cast<mstack*>(o)->arena_.used_.head_; }
W void* w_ms_cached(void* o) { return static_cast<detail::memory_arena_cache<true>&>(static_cast<mstack*>(o)->arena_).cached_.head_; }
W void* w_ms_cur(void* o) { return static_cast<mstack*>(o)->stack_.top(); }
W ulong w_ms_next_bs(void* o) { return static_cast<gba&>(static_cast<mstack*>(o)->arena_).block_size_; }
W long w_ms_leaked(void* o)
{
#if FOONATHAN_MEMORY_DEBUG_LEAK_CHECK
    return static_cast<mstack*>(o)->allocated_;
#else
    (void)o;
    return 0;
#endif
}
W void* w_ms_allocate(void* o, ulong size, ulong align) { VTRY return static_cast<mstack*>(o)->allocate(size, align); VCATCH(nullptr) }
W void* w_ms_try_allocate(void* o, ulong size, ulong align) { return static_cast<mstack*>(o)->try_allocate(size, align); }
W void w_ms_top(void* o, void* marker_out) { ::new (marker_out) mstack::marker(static_cast<mstack*>(o)->top()); }
W void w_ms_unwind(void* o, void* marker) { static_cast<mstack*>(o)->unwind(*static_cast<mstack::marker*>(marker)); }
W void w_ms_shrink_to_fit(void* o) { static_cast<mstack*>(o)->shrink_to_fit(); }
W ulong w_ms_capacity_left(void* o) { return static_cast<mstack*>(o)->capacity_left(); }
W ulong w_ms_next_capacity(void* o) { return static_cast<mstack*>(o)->next_capacity(); }
W ulong w_ms_min_block_size(ulong b) { return mstack::min_block_size(b); }
W void w_ms_move_ctor(void* o, void* from) { ::new (o) mstack(detail::move(*static_cast<mstack*>(from))); }
W void w_ms_move_assign(void* o, void* from) { *static_cast<mstack*>(o) = detail::move(*static_cast<mstack*>(from)); }
W ulong w_marker_index(void* m) { return static_cast<mstack::marker*>(m)->index; }
W void* w_marker_top(void* m) { return static_cast<mstack::marker*>(m)->top; }
W const void* w_marker_end(void* m) { return static_cast<mstack::marker*>(m)->end; }
W void w_marker_set(void* m, ulong index, void* top, void* end)
{
    auto* k = static_cast<mstack::marker*>(m);
    k->index = index; k->top = static_cast<char*>(top); k->end = static_cast<const char*>(end);
}
W ulong w_marker_eq(void* a, void* b) { return *static_cast<mstack::marker*>(a) == *static_cast<mstack::marker*>(b); }
W ulong w_marker_lt(void* a, void* b) { return *static_cast<mstack::marker*>(a) < *static_cast<mstack::marker*>(b); }
W ulong w_marker_le(void* a, void* b) { return *static_cast<mstack::marker*>(a) <= *static_cast<mstack::marker*>(b); }
// traits level (leak counter, maxima)
using mst = allocator_traits<mstack>;
using msct = composable_allocator_traits<mstack>;
W void* w_mst_allocate_node(void* o, ulong s, ulong a) { VTRY return mst::allocate_node(*static_cast<mstack*>(o), s, a); VCATCH(nullptr) }
W void* w_mst_allocate_array(void* o, ulong c, ulong s, ulong a) { VTRY return mst::allocate_array(*static_cast<mstack*>(o), c, s, a); VCATCH(nullptr) }
W void w_mst_deallocate_node(void* o, void* p, ulong s, ulong a) { mst::deallocate_node(*static_cast<mstack*>(o), p, s, a); }
W void w_mst_deallocate_array(void* o, void* p, ulong c, ulong s, ulong a) { mst::deallocate_array(*static_cast<mstack*>(o), p, c, s, a); }
W ulong w_mst_max_node_size(void* o) { return mst::max_node_size(*static_cast<mstack*>(o)); }
W ulong w_mst_max_array_size(void* o) { return mst::max_array_size(*static_cast<mstack*>(o)); }
W ulong w_mst_max_alignment(void* o) { return mst::max_alignment(*static_cast<mstack*>(o)); }
W void* w_msct_try_allocate_node(void* o, ulong s, ulong a) { return msct::try_allocate_node(*static_cast<mstack*>(o), s, a); }
W void* w_msct_try_allocate_array(void* o, ulong c, ulong s, ulong a) { return msct::try_allocate_array(*static_cast<mstack*>(o), c, s, a); }
W ulong w_msct_try_deallocate_node(void* o, void* p, ulong s, ulong a) { return msct::try_deallocate_node(*static_cast<mstack*>(o), p, s, a); }
W ulong w_msct_try_deallocate_array(void* o, void* p, ulong c, ulong s, ulong a) { return msct::try_deallocate_array(*static_cast<mstack*>(o), p, c, s, a); }

// growing / fixed block allocators on their own
using fba = fixed_block_allocator<hook_raw>;
W void w_gba_ctor(void* o, ulong bs, ulong id) { ::new (o) gba(bs, hook_raw(id)); }
W void* w_gba_allocate_block(void* o, ulong* size) { VTRY auto b = static_cast<gba*>(o)->allocate_block(); *size = b.size; return b.memory; VCATCH(nullptr) }
W void w_gba_deallocate_block(void* o, void* p, ulong size) { static_cast<gba*>(o)->deallocate_block(memory_block(p, size)); }
W ulong w_gba_next_block_size(void* o) { return static_cast<gba*>(o)->next_block_size(); }
W void w_fba_ctor(void* o, ulong bs, ulong id) { ::new (o) fba(bs, hook_raw(id)); }
W void* w_fba_allocate_block(void* o, ulong* size) { VTRY auto b = static_cast<fba*>(o)->allocate_block(); *size = b.size; return b.memory; VCATCH(nullptr) }
W void w_fba_deallocate_block(void* o, void* p, ulong size) { static_cast<fba*>(o)->deallocate_block(memory_block(p, size)); }
W ulong w_fba_next_block_size(void* o) { return static_cast<fba*>(o)->next_block_size(); }

// ---------------------------------------------------------------- iteration_allocator<N, hook_block>
template <std::size_t N>
using iter_t = iteration_allocator<N, hook_block>;
#define ITER(N)                                                                                     \
    W ulong w_it##N##_sizeof() { return sizeof(iter_t<N>); }                                        \
    W void w_it##N##_ctor(void* o, ulong bs, ulong id) { VTRY ::new (o) iter_t<N>(bs, id); VCATCH() } \
    W void w_it##N##_dtor(void* o) { static_cast<iter_t<N>*>(o)->~iter_t<N>(); }                   \
    W void w_it##N##_set(void* o, void* block, ulong size, ulong cur, ulong id)                     \
    {                                                                                               \
        auto* a = static_cast<iter_t<N>*>(o);                                                       \
        a->block_ = memory_block(block, size);                                                      \
        a->cur_ = cur;                                                                              \
        static_cast<hook_block&>(*a).id = id;                                                       \
        static_cast<hook_block&>(*a).block_size = size;                                             \
    }                                                                                               \
    W void w_it##N##_set_top(void* o, ulong i, void* top) { static_cast<iter_t<N>*>(o)->stacks_[i] = detail::fixed_memory_stack(top); } \
    W void* w_it##N##_top(void* o, ulong i) { return static_cast<iter_t<N>*>(o)->stacks_[i].top(); } \
    W ulong w_it##N##_cur(void* o) { return static_cast<iter_t<N>*>(o)->cur_; }                    \
    W void* w_it##N##_block(void* o, ulong* size) { auto* a = static_cast<iter_t<N>*>(o); *size = a->block_.size; return a->block_.memory; } \
    W void* w_it##N##_block_start(void* o, ulong i) { return static_cast<iter_t<N>*>(o)->block_start(i); } \
    W void* w_it##N##_allocate(void* o, ulong s, ulong a) { VTRY return static_cast<iter_t<N>*>(o)->allocate(s, a); VCATCH(nullptr) } \
    W void* w_it##N##_try_allocate(void* o, ulong s, ulong a) { return static_cast<iter_t<N>*>(o)->try_allocate(s, a); } \
    W void w_it##N##_next_iteration(void* o) { static_cast<iter_t<N>*>(o)->next_iteration(); }     \
    W ulong w_it##N##_capacity_left_i(void* o, ulong i) { return static_cast<iter_t<N>*>(o)->capacity_left(i); } \
    W ulong w_it##N##_capacity_left(void* o) { return static_cast<iter_t<N>*>(o)->capacity_left(); } \
    W ulong w_it##N##_cur_iteration(void* o) { return static_cast<iter_t<N>*>(o)->cur_iteration(); } \
    W ulong w_it##N##_max_iterations() { return iter_t<N>::max_iterations(); }                     \
    W void w_it##N##_move_ctor(void* o, void* from) { ::new (o) iter_t<N>(detail::move(*static_cast<iter_t<N>*>(from))); } \
    W void w_it##N##_move_assign(void* o, void* from) { *static_cast<iter_t<N>*>(o) = detail::move(*static_cast<iter_t<N>*>(from)); } \
    W ulong w_it##N##_try_deallocate_node(void* o, void* p, ulong s, ulong a) { return composable_allocator_traits<iter_t<N>>::try_deallocate_node(*static_cast<iter_t<N>*>(o), p, s, a); }
ITER(1)
ITER(2)
ITER(3)
ITER(4)
ITER(5)
