#include "temp.cpp"   // same wrappers; built with three modelled threads (tools/registry.py: threads=3)
