#!/bin/sh
cd "$(dirname "$0")/.."
for p in ${THOROUGH_PROPS:-C19 C07 C09 C08 C13 C15 C17 C18 C12 C04 C16 C02 C03 C05 C06 C11 C20 C14 C01 C10}; do
  VERIF_JOBS=8 /usr/bin/time -f "$p wall=%es" ./check $p --tier thorough 2>&1 | grep -E "^(C[0-9]+:|VIOLATION|  job=|KNOWN|INCONCLUSIVE|ERROR|UNDECIDED|VACUOUS|C[0-9]+ wall)" | cut -c1-260
done
