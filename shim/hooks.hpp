// hook allocators shared by the shims: every upstream request becomes a call into the harness
#ifndef VERIF_HOOKS_HPP
#define VERIF_HOOKS_HPP
#include "shim_common.hpp"
#include <foonathan/memory/error.hpp>
#include <foonathan/memory/memory_arena.hpp>
#include <foonathan/memory/allocator_traits.hpp>
#include <foonathan/memory/debugging.hpp>
#include <type_traits>

extern "C" {
// returns 0 to signal failure
void* verif_raw_alloc(ulong id, ulong size, ulong alignment);
void verif_raw_dealloc(ulong id, void* ptr, ulong size, ulong alignment);
void* verif_block_alloc(ulong id, ulong size);
void verif_block_dealloc(ulong id, void* ptr, ulong size);
void verif_oom_handler(const char* name, const void* alloc, ulong amount);
void verif_bad_size_handler(const char* name, const void* alloc, ulong passed, ulong supported);
void verif_invalid_pointer(const char* name, const void* alloc, const void* ptr);
void verif_leak_handler(const char* name, const void* alloc, long amount);
void verif_overflow_handler(const void* memory, ulong size, const void* ptr);
}

namespace vshim
{
    using namespace foonathan::memory;

    // a stateful RawAllocator whose every call goes to the harness; failure -> the library's out_of_memory
    struct hook_raw
    {
        using is_stateful = std::true_type;
        ulong id;
        explicit hook_raw(ulong i = 0) noexcept : id(i) {}
        void* allocate_node(std::size_t size, std::size_t alignment)
        {
            void* p = verif_raw_alloc(id, size, alignment);
            if (!p)
                FOONATHAN_THROW(out_of_memory(allocator_info("verif::hook_raw", this), size));
            return p;
        }
        void deallocate_node(void* p, std::size_t size, std::size_t alignment) noexcept
        {
            verif_raw_dealloc(id, p, size, alignment);
        }
        std::size_t max_node_size() const noexcept { return std::size_t(-1); }
    };

    // a BlockAllocator whose every call goes to the harness
    struct hook_block
    {
        ulong id, block_size;
        explicit hook_block(std::size_t bs, ulong i = 0) noexcept : id(i), block_size(bs) {}
        memory_block allocate_block()
        {
            void* p = verif_block_alloc(id, block_size);
            if (!p)
                FOONATHAN_THROW(out_of_memory(allocator_info("verif::hook_block", this), block_size));
            return memory_block(p, block_size);
        }
        void deallocate_block(memory_block b) noexcept { verif_block_dealloc(id, b.memory, b.size); }
        std::size_t next_block_size() const noexcept { return block_size; }
    };

    inline void h_oom(const allocator_info& i, std::size_t a) noexcept { verif_oom_handler(i.name, i.allocator, a); }
    inline void h_bad(const allocator_info& i, std::size_t p, std::size_t s) noexcept { verif_bad_size_handler(i.name, i.allocator, p, s); }
    inline void h_inv(const allocator_info& i, const void* p) noexcept { verif_invalid_pointer(i.name, i.allocator, p); }
    inline void h_leak(const allocator_info& i, std::ptrdiff_t a) noexcept { verif_leak_handler(i.name, i.allocator, a); }
    inline void h_ovf(const void* m, std::size_t s, const void* p) noexcept { verif_overflow_handler(m, s, p); }
    inline void install_handlers()
    {
        out_of_memory::set_handler(h_oom);
        bad_allocation_size::set_handler(h_bad);
        set_invalid_pointer_handler(h_inv);
        set_leak_handler(h_leak);
        set_buffer_overflow_handler(h_ovf);
    }
} // namespace vshim

// exception plumbing: in the IR build exceptions propagate out of the wrapper (the harness reads EXC);
// in the native build the wrapper catches and classifies
#ifdef VERIF_NATIVE
extern "C" int verif_exc, verif_exc_kind;
#define VTRY try {
#define VCATCH(ret)                                                                                 \
    }                                                                                               \
    catch (const foonathan::memory::out_of_fixed_memory&) { verif_exc = 1; verif_exc_kind = 2; return ret; } \
    catch (const foonathan::memory::out_of_memory&) { verif_exc = 1; verif_exc_kind = 1; return ret; }       \
    catch (const foonathan::memory::bad_allocation_size&) { verif_exc = 1; verif_exc_kind = 3; return ret; } \
    catch (const std::bad_alloc&) { verif_exc = 1; verif_exc_kind = 4; return ret; }                \
    catch (...) { verif_exc = 1; verif_exc_kind = 5; return ret; }
#else
#define VTRY {
#define VCATCH(ret) }
#endif
#endif
