/* C14: stacks of finished threads are reused rather than leaked -- three generations of threads, one after the other.
 * Thread 1 uses a temporary allocator and exits; thread 2 starts, uses one and exits; thread 0 then uses one.
 * At most one thread is alive at any time, so a single temporary stack must serve all three (adoption), and each
 * thread's exit must mark the stack free again.  The schedule and the allocation size are fixed (a concrete execution of the real code in the thread model). */
#include "hooks_common.h"
#define SLOTSZ 96
#define NSLOTS 5
static int slot_used[NSLOTS], n_os_alloc, n_stack_objects;
uint64_t verif_os_alloc(uint64_t size, uint64_t al)
{
    (void)al; n_os_alloc++;
    ASSUME(size <= SLOTSZ);
    for (int i = 0; i < NSLOTS; ++i) if (!slot_used[i]) { slot_used[i] = 1; return HEAP_BASE + 0x80 + (uint64_t)i * SLOTSZ; }
    ASSUME(0);
    return 0;
}
void verif_os_free(uint64_t p, uint64_t size, uint64_t al)
{
    (void)size; (void)al;
    int i = (int)((p - HEAP_BASE - 0x80) / SLOTSZ);
    if (i >= 0 && i < NSLOTS) slot_used[i] = 0;
}
static uint64_t use(uint64_t tid, uint64_t TA)
{
    ir_tid = tid;
    CLEAR_EXC();
    uint64_t st = w_get_temporary_stack(64); ASSUME(!EXC && st != 0);
    w_ta_ctor_stack(TA, st);
    uint64_t s = 8;                       /* constant: with a symbolic size the query exceeds the memory budget */
    (void)w_ta_allocate(TA, s, 8);
    w_ta_dtor(TA);
    return st;
}
void harness(void)
{
    HAVOC_HEAP();
    w_install_handlers();
    uint64_t TA = HEAP_BASE;
    uint64_t s1 = use(1, TA);
    ASSERT(w_ts_in_use(s1) == 1, "C14: the stack of a live thread is marked in use");
    ir_thread_exit(1);
    ASSERT(w_ts_in_use(s1) == 0, "C14: a finished thread's stack is marked free");
    uint64_t s2 = use(2, TA);
    ASSERT(s2 == s1, "C14: the next thread adopts the finished thread's stack instead of creating a new one");
    ir_thread_exit(2);
    ASSERT(w_ts_in_use(s2) == 0, "C14: the stack is marked free again when the adopting thread finishes (not leaked for later threads)");
    uint64_t s0 = use(0, TA);
    ASSERT(s0 == s1, "C14: a third-generation thread adopts the same stack again");
    WITNESS_END();
}
