/* C18 (a): a block of min_block_size(node_size, n) bytes yields at least n nodes when the real insert() runs on it.
 *   -DKIND=1 free_memory_list, 2 ordered_free_memory_list : insert loop bounded by n <= NMAX (heap resident)
 *   -DKIND=3 small_free_memory_list : block in the sparse phantom region, node size NS constant per query,
 *            n symbolic 1..NMAX; the real insert() (chunk construction included) runs, capacity() is compared.
 * also: usable_size(min_block_size) and the counter observers. */
#include "verif.h"
#ifndef NS
#define NS 1
#endif
#ifndef K
#define K 1
#endif

void verif_invalid_pointer(uint64_t name, uint64_t alloc, uint64_t ptr) { (void)name; (void)alloc; (void)ptr; ASSERT(0, "no invalid pointer report"); }

void harness(void)
{
    HAVOC_HEAP();
    uint64_t L = HEAP_BASE;
#if KIND == 3
    /* class K = chunk_count(n): n in (255(K-1), 255K].  (1) for every n of the class min_block_size(NS, n) equals the
       value for the largest n of the class (symbolic n, solver); (2) the real insert() on that many bytes, run on the
       sparse phantom region, yields at least 255K >= n nodes (node size and K are constants of the query, so this
       part is a concrete execution of the real loops). */
    uint64_t n = nondet_u16(); ASSUME(n > 255 * (K - 1) && n <= 255 * K);
    uint64_t size = w_sfl_min_block_size(NS, 255 * K);
    ASSERT(w_sfl_min_block_size(NS, n) == size, "C18: min_block_size(ns, n) depends on n only through its chunk count");
    uint64_t mem = UINT64_C(0x1000000);          /* phantom region, max_alignment aligned */
    w_sfl_ctor(L, NS);
    w_sfl_insert(L, mem, size);
    ASSERT(w_sfl_capacity(L) >= 255 * K, "C18: small_free_memory_list built on min_block_size(ns, n) bytes holds at least n nodes");
    ASSERT(w_sfl_capacity(L) >= n, "C18: capacity() >= n");
    ASSERT(w_sfl_usable_size(L, size) <= size, "usable_size never exceeds the block");
#elif KIND == 1 || KIND == 2
    /* intrusive lists: insert() produces floor(size / node_size()) nodes (proved by the insert step of fl_step.c for
       every size it can hold in the heap); here: with the real constructor's node size and the real formulas that
       quotient is at least n and nothing of the block is wasted, for all ns <= 512 and n <= 2000 */
    uint64_t ns = nondet_u16(), n = nondet_u16();
    ASSUME(ns >= 1 && ns <= 512 && n >= 1 && n <= 2000);
#if KIND == 1
    w_fl_ctor(L, ns);
    uint64_t real_ns = w_fl_node_size(L), size = w_fl_min_block_size(ns, n), us = w_fl_usable_size(L, size);
#else
    w_ofl_ctor(L, ns);
    uint64_t real_ns = w_ofl_node_size(L), size = w_ofl_min_block_size(ns, n), us = w_ofl_usable_size(L, size);
#endif
    ASSERT(real_ns >= ns && real_ns >= 8, "node_size() is the requested size, at least the size of a link");
    ASSERT(size / real_ns >= n, "C18: min_block_size(ns, n) bytes hold at least n nodes of node_size() bytes");
    ASSERT(us == size, "C18: usable_size(min_block_size) is the whole block");
    ASSERT(size == real_ns * n, "C18: min_block_size is exact for the intrusive lists");
#else
#error "KIND"
#endif
    WITNESS_END();
}
