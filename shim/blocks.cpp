// shim group "blocks": static_allocator, static_block_allocator, virtual_block_allocator, virtual_memory_allocator (C01 C03 C05 C12 C16 C17 C18)
#include "hooks.hpp"
#include <foonathan/memory/static_allocator.hpp>
#include <foonathan/memory/virtual_memory.hpp>
using namespace foonathan::memory;
using namespace vshim;
W void w_install_handlers() { install_handlers(); }
W ulong w_fence() { return detail::debug_fence_size; }
W ulong w_page() { return get_virtual_memory_page_size(); }
// ---- static_block_allocator over storage the harness places in the heap
using sba = static_block_allocator;
W ulong w_sba_sizeof() { return sizeof(sba); }
W void w_sba_set(void* o, void* cur, void* end, ulong bs) { auto* a = static_cast<sba*>(o); a->cur_ = static_cast<char*>(cur); a->end_ = static_cast<char*>(end); a->block_size_ = bs; }
W void* w_sba_cur(void* o) { return static_cast<sba*>(o)->cur_; }
W void* w_sba_end(void* o) { return static_cast<sba*>(o)->end_; }
W ulong w_sba_bs(void* o) { return static_cast<sba*>(o)->block_size_; }
W void* w_sba_allocate_block(void* o, ulong* size) { VTRY auto b = static_cast<sba*>(o)->allocate_block(); *size = b.size; return b.memory; VCATCH(nullptr) }
W void w_sba_deallocate_block(void* o, void* p, ulong size) { static_cast<sba*>(o)->deallocate_block(memory_block(p, size)); }
W void w_sba_move_ctor(void* o, void* f) { ::new (o) sba(detail::move(*static_cast<sba*>(f))); }
W void w_sba_move_assign(void* o, void* f) { *static_cast<sba*>(o) = detail::move(*static_cast<sba*>(f)); }
W void w_sba_dtor(void* o) { static_cast<sba*>(o)->~sba(); }
// ---- static_allocator
using sa = static_allocator;
W ulong w_sa_sizeof() { return sizeof(sa); }
W void w_sa_set(void* o, void* cur, void* end) { auto* a = static_cast<sa*>(o); a->stack_ = detail::fixed_memory_stack(cur); a->end_ = static_cast<const char*>(end); }
W void* w_sa_cur(void* o) { return static_cast<sa*>(o)->stack_.top(); }
W void* w_sa_allocate_node(void* o, ulong s, ulong a) { VTRY return static_cast<sa*>(o)->allocate_node(s, a); VCATCH(nullptr) }
W ulong w_sa_max_node_size(void* o) { return static_cast<sa*>(o)->max_node_size(); }
// ---- virtual_block_allocator
using vba = virtual_block_allocator;
W ulong w_vba_sizeof() { return sizeof(vba); }
W void w_vba_ctor(void* o, ulong bs, ulong n) { VTRY ::new (o) vba(bs, n); VCATCH() }
W void w_vba_set(void* o, void* cur, void* end, ulong bs) { auto* a = static_cast<vba*>(o); a->cur_ = static_cast<char*>(cur); a->end_ = static_cast<char*>(end); a->block_size_ = bs; }
W void* w_vba_cur(void* o) { return static_cast<vba*>(o)->cur_; }
W void* w_vba_end(void* o) { return static_cast<vba*>(o)->end_; }
W void* w_vba_allocate_block(void* o, ulong* size) { VTRY auto b = static_cast<vba*>(o)->allocate_block(); *size = b.size; return b.memory; VCATCH(nullptr) }
W void w_vba_deallocate_block(void* o, void* p, ulong size) { static_cast<vba*>(o)->deallocate_block(memory_block(p, size)); }
W void w_vba_move_ctor(void* o, void* f) { ::new (o) vba(detail::move(*static_cast<vba*>(f))); }
W void w_vba_move_assign(void* o, void* f) { *static_cast<vba*>(o) = detail::move(*static_cast<vba*>(f)); }
W void w_vba_dtor(void* o) { static_cast<vba*>(o)->~vba(); }
W ulong w_vba_capacity_left(void* o) { return static_cast<vba*>(o)->capacity_left(); }
// ---- virtual_memory_allocator
W void* w_vma_allocate_node(ulong s, ulong a) { VTRY virtual_memory_allocator v; return v.allocate_node(s, a); VCATCH(nullptr) }
W void w_vma_deallocate_node(void* p, ulong s, ulong a) { virtual_memory_allocator v; v.deallocate_node(p, s, a); }
