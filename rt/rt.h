/* runtime for ir2c-generated C: flat memory regions, exception flag, intrinsics.
 * Three build modes:
 *   (default)      CBMC      : IR_CHECK -> __CPROVER_assert, nondet_* undefined (symbolic)
 *   -DIR_GCC       gcc build of the generated C (translator validation / replay on translation)
 */
#ifndef IR_RT_H
#define IR_RT_H
#include <stdint.h>
typedef unsigned __int128 u128;
typedef __int128 i128;

#define HEAP_BASE UINT64_C(0x100000)
#define STK_BASE  UINT64_C(0x200000)
#define GLB_BASE  UINT64_C(0x300000)
#define GLC_BASE  UINT64_C(0x400000)
#define FUNC_BASE UINT64_C(0x500000)
#ifndef HEAP_SIZE
#define HEAP_SIZE 256
#endif
#ifndef STK_SIZE
#define STK_SIZE 192
#endif
#define EXC_BUF_SIZE 64
#define RH 1
#define RS 2
#define RG 4
#define RC 8

extern uint64_t HEAP[HEAP_SIZE / 8];
extern uint64_t STK[STK_SIZE / 8];
extern uint64_t GLB[];
extern const uint64_t GLC[];
extern const uint64_t ir_glb_size, ir_glc_size;
extern uint64_t SP;
extern int EXC, EXC_TYPE, STOPPED, STOP_IS_FAILURE;
extern uint64_t EXC_OBJ;
extern uint64_t ir_tid;
extern const int ir_ti_parent[];
int ir_ti_id(uint64_t addr);
void ir_global_ctors(void);
void ir_thread_exit(uint64_t tid);   /* the static initialisers of reachable globals, in module order */

#ifdef IR_GCC
void ir_fail(const char* msg);
void ir_assume_fail(void);
#define IR_CHECK(c, msg) do { if (!(c)) ir_fail(msg); } while (0)
#define IR_ASSUME(c) do { if (!(c)) ir_assume_fail(); } while (0)
#else
#define IR_CHECK(c, msg) __CPROVER_assert((c), "IR: " msg)
#define IR_ASSUME(c) __CPROVER_assume(c)
#endif

uint8_t  ld8(uint64_t a, int m);
uint16_t ld16(uint64_t a, int m);
uint32_t ld32(uint64_t a, int m);
uint64_t ld64(uint64_t a, int m);
u128     ld128(uint64_t a, int m);
void st8(uint64_t a, uint8_t v, int m);
void st16(uint64_t a, uint16_t v, int m);
void st32(uint64_t a, uint32_t v, int m);
void st64(uint64_t a, uint64_t v, int m);
void st128(uint64_t a, u128 v, int m);
uint64_t ir_alloca(uint64_t size, int align);
void ir_memmove(uint64_t d, uint64_t s, uint64_t n);
void ir_memset(uint64_t d, uint8_t v, uint64_t n);
uint64_t ir_ctlz(uint64_t x, int bits);
uint64_t ir_cttz(uint64_t x, int bits);
uint64_t ir_ctpop(uint64_t x);
uint64_t ir_bswap(uint64_t x, int bits);
uint64_t ir_fsh(uint64_t a, uint64_t b, uint64_t c, int bits, int left);
void ir_trap(void);
void ir_stop(void);
void ir_fence(void);
void ir_atomic_begin(void);
void ir_atomic_end(void);
int ir_lp_select(int n, const int* ids);
int ir_exc_isa(int ti);
float ir_u2f(uint32_t x); double ir_u2d(uint64_t x);
uint32_t ir_f2u(float x); uint64_t ir_d2u(double x);
#endif
