#!/usr/bin/env python3
"""check driver: runs the solver jobs registered for a property, replays counterexamples natively, writes evidence."""
import os, sys, json, time, re, hashlib, subprocess, threading, traceback
from concurrent.futures import ThreadPoolExecutor, as_completed
sys.path.insert(0, os.path.dirname(os.path.abspath(__file__)))
import build
from build import VERIF, WORK

class Job:
    def __init__(self, name, props, group, harness, config='baseline', defines=(), unwind=8, unwindset=(), timeout=240,
                 mem_gb=6, tier='quick', temp_mode=2, roots=r'^w_', threads=1, desc='', bounds='', finding=None,
                 function='harness', extra=(), witness=True, solver=None, sweep=True, model_only=False, static_audit=None):
        self.name = name; self.props = props if isinstance(props, (list, tuple)) else [props]
        self.group = group; self.harness = harness; self.config = config; self.defines = list(defines)
        self.unwind = unwind; self.unwindset = list(unwindset); self.timeout = timeout; self.mem_gb = mem_gb
        self.tier = tier; self.temp_mode = temp_mode; self.roots = roots; self.threads = threads
        self.desc = desc; self.bounds = bounds; self.finding = finding; self.function = function
        self.extra = list(extra); self.witness = witness; self.solver = solver; self.sweep = sweep; self.model_only = model_only; self.static_audit = static_audit

    def cfg_defines(self):
        c = build.CONFIGS[self.config]
        return ['CFG_FILL=%d' % c['FILL'], 'CFG_FENCE=%d' % c['FENCE'], 'CFG_ASSERT=%d' % c['ASSERT'],
                'CFG_LEAK=%d' % c['LEAK'], 'CFG_PTR=%d' % c['PTR'], 'CFG_DOUBLE=%d' % c['DOUBLE']]

    def all_defines(self):
        return self.cfg_defines() + self.defines + (['WITNESS'] if self.witness else []) + (['IR_MEMSET_SWEEP'] if self.sweep else [])

def verif_hash():
    # everything that shapes EVERY query: runtime model, translator, driver, shared headers.  The registry is not hashed
    # (each job's parameters are part of its own key), and a harness / shim source only enters the keys of its own jobs.
    import glob
    return build.tree_hash([os.path.join(VERIF, 'rt')] +
                           [os.path.join(VERIF, 'tools', f) for f in ('ir2c.py', 'irparse.py', 'build.py', 'driver.py', 'nodesizes.py')] + [os.path.join(VERIF, 'tools', 'bin')] +
                           sorted(glob.glob(os.path.join(VERIF, 'harness', '*.h'))) + sorted(glob.glob(os.path.join(VERIF, 'shim', '*.hpp'))))
_src_hash = {}
def src_hash(job):
    k = (job.harness, job.group)
    if k not in _src_hash:
        files = [os.path.join(VERIF, 'harness', job.harness), os.path.join(VERIF, 'shim', job.group + '.cpp')]
        if job.group == 'temp3': files.append(os.path.join(VERIF, 'shim', 'temp.cpp'))       # temp3.cpp includes it
        _src_hash[k] = build.tree_hash([f for f in files if os.path.exists(f)])
    return _src_hash[k]

_build_lock = threading.Lock()
# never schedule more than MEM_BUDGET GB of per-query memory caps at once (the machine has 62 GB)
MEM_BUDGET = int(os.environ.get('VERIF_MEM_GB', '48'))
_mem_cv = threading.Condition(); _mem_used = [0]
class mem_slot:
    def __init__(self, gb): self.gb = min(gb, MEM_BUDGET)
    def __enter__(self):
        with _mem_cv:
            while _mem_used[0] + self.gb > MEM_BUDGET: _mem_cv.wait()
            _mem_used[0] += self.gb
    def __exit__(self, *a):
        with _mem_cv:
            _mem_used[0] -= self.gb; _mem_cv.notify_all()
_group_cache = {}
def get_group(job):
    key = (job.group, job.config, job.temp_mode, job.roots, job.threads)
    with _build_lock:
        if key not in _group_cache:
            try:
                _group_cache[key] = build.build_group(job.group, job.config, job.temp_mode, job.roots, job.threads)
            except build.BuildError as e:
                _group_cache[key] = e
        g = _group_cache[key]
    if isinstance(g, Exception): raise g
    return g

def job_key(job, rh, vh):
    return build.sha(rh, vh, src_hash(job), job.name, job.group, job.config, job.harness, ' '.join(job.all_defines()), str(job.unwind),
                     ','.join(job.unwindset), str(job.temp_mode), ' '.join(job.extra), str(job.solver), job.roots, str(job.threads), job.function, str(job.witness), str(job.sweep))

def sweep_unwind(job, g):
    if not job.sweep: return []
    heap = 256
    for x in job.defines:
        if x.startswith('HEAP_SIZE='): heap = int(x.split('=')[1])
    stk = 192
    for x in job.defines:
        if x.startswith('STK_SIZE='): stk = int(x.split('=')[1])
    return ['memset_sweep_heap.0:%d' % (heap // 8 + 1), 'memset_sweep_stk.0:%d' % (stk // 8 + 1), 'memset_sweep_glb.0:%d' % ((g['meta'].get('glb_size', 0) + 16 + 7) // 8 + 2)]

def is_witness(desc):
    return desc is not None and desc.startswith('WITNESS')

def run_job(job, rh, vh, use_cache=True):
    """returns result dict: status in ok|violation|known|undecided|vacuous|inconclusive|error"""
    cdir = os.path.join(WORK, 'results'); os.makedirs(cdir, exist_ok=True)
    cpath = os.path.join(cdir, job_key(job, rh, vh) + '.json')
    if use_cache and os.path.exists(cpath):
        r = json.load(open(cpath)); r['cached'] = True; r['desc'] = job.desc; r['bounds'] = job.bounds
        return r
    t0 = time.time()
    res = dict(job=job.name, harness=job.harness, group=job.group, config=job.config, defines=job.all_defines(),
               bounds=job.bounds, desc=job.desc, unwind=job.unwind, cached=False)
    try:
        g = get_group(job)
    except build.BuildError as e:
        res.update(status='error', detail=str(e)[-4000:], wall_s=time.time() - t0)
        return res
    res['functions_encoded'] = len(g['meta']['functions'])
    if job.static_audit == 'atomics':
        res.update(audit_atomics(g)); res['wall_s'] = round(time.time() - t0, 2)
        return res
    res['externs'] = g['meta']['externs']
    extra = list(job.extra)
    if job.solver == 'cadical': extra += ['--sat-solver', 'cadical']
    elif job.solver == 'kissat': extra += ['--external-sat-solver', 'kissat']
    elif job.solver == 'cvc5': extra += ['--cvc5']     # via tools/bin/cvc5: --solve-bv-as-int=sum (mul/div kernels)
    uws = list(job.unwindset) + sweep_unwind(job, g)
    with mem_slot(job.mem_gb):
        r = build.run_cbmc(g, job.harness, defines=job.all_defines(), unwind=job.unwind, unwindset=uws,
                           timeout=job.timeout, mem_gb=job.mem_gb, function=job.function, extra=extra)
    if r['status'] in ('timeout', 'oom') and not os.environ.get('VERIF_NO_RETRY'):
        # resource limits depend on the load of the machine: one retry with twice the time and 1.5x the memory
        res['retried_after'] = r['status']
        with mem_slot(min(job.mem_gb * 1.5, 40)):
            r = build.run_cbmc(g, job.harness, defines=job.all_defines(), unwind=job.unwind, unwindset=uws,
                               timeout=job.timeout * 2, mem_gb=min(job.mem_gb * 1.5, 40), function=job.function, extra=extra)
    res.update(cbmc_status=r['status'], solver_wall_s=round(r['time'], 2), n_props=len(r['props']),
               steps=r.get('steps'), vars=r.get('vars'), clauses=r.get('clauses'), cmd=r['cmd'], rss_mb=r.get('rss_mb'), cap_mb=int(job.mem_gb * 1024))
    res['prop_list'] = [p[1] for p in r['props']]
    if r['status'] in ('timeout', 'oom'):
        res.update(status='undecided', detail=r['status'])
    elif r['status'] == 'error':
        res.update(status='error', detail=r.get('output', '')[-3000:])
    else:
        failed = [f for f in r['failed']]
        wit = [f for f in failed if is_witness(f['description'])]
        real = [f for f in failed if not is_witness(f['description'])]
        n_wit_expected = sum(1 for p in r['props'] if is_witness(p[1]))
        res['obligations'] = len(r['props']) - n_wit_expected
        res['witnesses'] = n_wit_expected
        res['witnesses_reached'] = len(wit)
        if any('unwinding assertion' in (f['description'] or '') for f in real):
            uw = [f for f in real if 'unwinding assertion' in (f['description'] or '')]
            res['failed'] = [f['description'] for f in real]
            res.update(status='error', detail='unwinding bound too small for this harness (an --unwinding-assertions check failed): %s' %
                       sorted(set(f['property'] for f in uw)))
            # a loop of the LIBRARY that exceeds its bound may be a non-terminating loop: replay natively with a time limit
            if any((f['property'] or '').startswith('F_') for f in uw) and not job.model_only:
                rp = replay_failure(job, g, uw, extra, hang_probe=True)
                if rp.get('status') == 'violation': res.update(rp)
        elif job.witness and (n_wit_expected == 0 or len(wit) < n_wit_expected):
            res.update(status='vacuous', detail='witness assertion(s) not reachable: %s' %
                       [p[1] for p in r['props'] if is_witness(p[1]) and p[1] not in [w['description'] for w in wit]])
        elif not real:
            res.update(status='ok', discharged=res['obligations'])
        else:
            res['discharged'] = res['obligations'] - len(real)
            res['failed'] = [f['description'] for f in real]
            if job.model_only:
                # harness uses per-thread copies of thread_local state and a thread-exit hook that exist only in the model
                res.update(status='violation', failing=real[0]['description'], detail='model-level counterexample (no native replay: the schedule is a constant of the query, thread-local state is modelled): ' + '; '.join(res['failed'])[:400])
            else:
                # replay the first failing obligation against the real code
                res.update(replay_failure(job, g, real, extra))
    res['wall_s'] = round(time.time() - t0, 2)
    if res['status'] in ('ok', 'violation', 'known') and use_cache:
        json.dump(res, open(cpath, 'w'))
    return res

def replay_failure(job, g, real, extra, hang_probe=False):
    """re-run with --trace, extract inputs, run natively against the real code"""
    out = {}
    defs = job.cfg_defines() + job.defines + (['IR_MEMSET_SWEEP'] if job.sweep else [])     # no WITNESS: the trace must be for a real obligation
    r = build.run_cbmc(g, job.harness, defines=defs, unwind=job.unwind, unwindset=list(job.unwindset) + sweep_unwind(job, g), timeout=job.timeout * 2,
                       mem_gb=job.mem_gb, function=job.function, extra=extra, trace=True)
    fl = [f for f in r.get('failed', []) if f.get('trace')]
    if hang_probe:
        fl = [f for f in fl if 'unwinding assertion' in (f.get('description') or '')] or fl
    if not fl:
        return dict(status='inconclusive', detail='no trace obtained for failing obligation(s) %s (%s)' % ([f['description'] for f in real], r['status']))
    f0 = fl[0]
    nondet, heap = build.trace_inputs(f0)
    rdir = os.path.join(VERIF, 'replays'); os.makedirs(rdir, exist_ok=True)
    rpath = os.path.join(rdir, '%s.replay' % job.name)
    with open(rpath, 'w') as fh:
        fh.write('# replay for job %s\n# harness %s group %s config %s\n# defines %s\n# failing obligation: %s\n' %
                 (job.name, job.harness, job.group, job.config, ' '.join(defs), f0['description']))
        fh.write('J %s\n' % job.name)
        for k, v in nondet: fh.write('N %s %d\n' % (k, v))
        if heap is not None: fh.write('H ' + ''.join('%02x' % b for b in heap) + '\n')
    out['replay'] = rpath
    out['failing'] = f0['description']
    model_only = f0['description'].startswith('IR: ')
    if hang_probe and 'unwinding assertion' in (f0['description'] or ''): model_only = False
    try:
        exe = build.build_native(g, job.harness, defines=defs + ['HEAP_SIZE_NATIVE=1'])
        p = subprocess.run([exe, rpath], stdout=subprocess.PIPE, stderr=subprocess.STDOUT, text=True, timeout=20 if hang_probe else 60)
        out['native_rc'] = p.returncode; out['native_out'] = p.stdout[-800:]
    except subprocess.TimeoutExpired:
        return dict(out, status='violation', detail='native run of the counterexample does not terminate (killed after the time limit): a loop of the library never exits')
    except Exception as e:
        return dict(out, status='inconclusive', detail='native replay could not run: %s' % str(e)[-1500:])
    if p.returncode == 1 and 'ASSERTION-VIOLATED' in p.stdout:
        out.update(status='violation', detail='reproduced natively: ' + p.stdout.strip().splitlines()[-1])
    elif model_only:
        out.update(status='violation', detail='memory-safety (model): %s ; native run: rc=%d %s' % (f0['description'], p.returncode, p.stdout.strip()[-200:]))
    elif p.returncode == 42:
        out.update(status='violation', detail='native run stopped (abort/signal) on the counterexample: ' + p.stdout.strip()[-200:])
    else:
        out.update(status='inconclusive', detail='counterexample for "%s" did not reproduce natively (rc=%d): %s' % (f0['description'], p.returncode, p.stdout.strip()[-300:]))
    return out

SHARED_GLOBAL_RE = r'@(_ZN9foonathan6memory6detail24global_leak_checker_impl\w*(?:allocated_|no_counter_objects_)E|_ZN12_GLOBAL__N_1\d+\w+_hE|_ZL24temporary_stack_list_obj)\b'
def audit_atomics(g):
    """C13 (b): every instruction of the linked IR that touches a process-wide shared counter / handler pointer must be an atomic
    operation (load atomic / store atomic / atomicrmw / cmpxchg).  A syntactic audit of the real IR, regenerated on every run."""
    text = open(os.path.join(g['dir'], 'module.ll')).read()
    props = []; bad = []
    for ln in text.split('\n'):
        if not ln.startswith('  '): continue
        m = re.search(SHARED_GLOBAL_RE, ln)
        if not m: continue
        if ' call ' in ln or ln.strip().startswith(('call', 'invoke', 'tail call')): continue      # address passed on, not an access
        ok = ' atomic ' in ln or 'atomicrmw' in ln or 'cmpxchg' in ln
        props.append('atomic access to ' + m.group(1)[:90])
        if not ok: bad.append(ln.strip()[:200])
    res = dict(cbmc_status='static', prop_list=sorted(set(props)), obligations=len(props), witnesses=0, witnesses_reached=0)
    if not props: res.update(status='vacuous', detail='no access to a shared global found in the IR')
    elif bad: res.update(status='violation', discharged=len(props) - len(bad), failed=['non-atomic access to a shared global'], failing='non-atomic access', detail='; '.join(bad[:3]), replay='n/a')
    else: res.update(status='ok', discharged=len(props))
    return res

def load_findings():
    p = os.path.join(VERIF, 'known_findings.json')
    if not os.path.exists(p): return []
    return json.load(open(p)).get('findings', [])

def match_finding(findings, prop, job, failing):
    for f in findings:
        if f.get('status') != 'open': continue
        if f.get('property') != prop and prop not in f.get('properties', []): continue
        if not re.search(f['job'], job): continue
        if all(re.search(f['assertion'], x or '') for x in failing):
            return f
    return None

def main(registry):
    import argparse
    ap = argparse.ArgumentParser()
    ap.add_argument('prop'); ap.add_argument('--tier', default=os.environ.get('VERIF_TIER', 'quick'))
    ap.add_argument('--replay'); ap.add_argument('--jobs', type=int, default=int(os.environ.get('VERIF_JOBS', '12')))
    ap.add_argument('--no-cache', action='store_true'); ap.add_argument('--only'); ap.add_argument('--list', action='store_true')
    a = ap.parse_args()
    prop = a.prop
    if a.replay:
        return do_replay(registry, a.replay)
    jobs = [j for j in registry if prop in j.props and (j.tier == 'quick' or a.tier == 'thorough')]
    if a.only: jobs = [j for j in jobs if re.search(a.only, j.name)]
    if a.list:
        for j in jobs: print(j.name, j.tier, j.config, j.harness, ' '.join(j.defines))
        return 0
    if not jobs:
        print('no jobs registered for', prop); return 2
    t0 = time.time()
    seed = int(os.environ.get('VERIF_SEED', '0') or 0)
    rh = build.repo_hash(); vh = verif_hash()
    findings = load_findings()
    results = []
    # build groups first (serially per group, cheap when cached)
    with ThreadPoolExecutor(max_workers=a.jobs) as ex:
        futs = {ex.submit(run_job, j, rh, vh, not a.no_cache): j for j in jobs}
        for fu in as_completed(futs):
            j = futs[fu]
            try: r = fu.result()
            except Exception as e:
                r = dict(job=j.name, status='error', detail=traceback.format_exc()[-3000:])
            results.append(r)
            sys.stderr.write('[%s] %-40s %-12s %6.1fs %s\n' % (prop, j.name, r['status'], r.get('wall_s', 0), '(cached)' if r.get('cached') else ''))
    results.sort(key=lambda r: r['job'])
    violations = []; known = []; trouble = []; undecided = []
    for r in results:
        st = r['status']
        if st == 'violation':
            f = match_finding(findings, prop, r['job'], r.get('failed', []))
            if f: known.append((f, r))
            else: violations.append(r)
        elif st == 'undecided':
            undecided.append(r)
        elif st in ('error', 'vacuous', 'inconclusive'):
            trouble.append(r)
    seen = set()
    for f, r in known:
        if f['id'] in seen: continue
        seen.add(f['id'])
        print('KNOWN-FINDING: property=%s %s' % (prop, f['what']))
    for r in violations:
        print('VIOLATION property=%s replay=%s' % (prop, r.get('replay', 'n/a')))
        print('  job=%s failing=%s' % (r['job'], r.get('failing')))
        print('  ' + (r.get('detail') or '')[:500])
    for r in trouble:
        print('%s job=%s: %s' % (r['status'].upper(), r['job'], (r.get('detail') or '')[:1500]))
    for r in undecided:
        print('UNDECIDED job=%s: %s after one retry with doubled limits -- no verdict, NOT counted as explored (listed under coverage.undecided in the evidence)' % (r['job'], r.get('detail')))
    # a few queries without a verdict (time / memory depend on the machine) do not make the check fail: the property held on
    # everything that was explored, and the evidence says what was not.  Many of them mean the machinery is not working.
    too_many = len(undecided) > max(2, len(results) // 10)
    if too_many: trouble = trouble + undecided
    write_evidence(prop, a.tier, seed, results, time.time() - t0, violations, known, trouble + ([] if too_many else undecided))
    ok = sum(1 for r in results if r['status'] == 'ok')
    print('%s: %d jobs, %d ok, %d known-finding, %d violation, %d undecided/error; %.1fs' %
          (prop, len(results), ok, len(known), len(violations), len(trouble) + (0 if too_many else len(undecided)), time.time() - t0))
    if violations: return 1
    if trouble: return 2
    return 0

def write_evidence(prop, tier, seed, results, wall, violations, known, trouble):
    obligations = sum(r.get('obligations', 0) for r in results)
    discharged = sum(r.get('discharged', 0) for r in results)
    distinct = set()
    for r in results:
        if r['status'] == 'ok':
            for p in r.get('prop_list', []):
                if not is_witness(p): distinct.add((r['harness'], p))
    samples = []
    for r in results:
        samples.append({k: r.get(k) for k in ('job', 'desc', 'harness', 'group', 'config', 'defines', 'bounds', 'unwind', 'status',
                                               'obligations', 'discharged', 'witnesses', 'witnesses_reached', 'steps', 'vars',
                                               'clauses', 'solver_wall_s', 'functions_encoded', 'failed', 'detail', 'cached')})
    stubs = sorted(set(x for r in results for x in (r.get('externs') or [])))
    ev = {
        'property_id': prop, 'tier': tier, 'seed': seed, 'level': 'model_checking',
        'coverage': {
            'evaluations': len(results),
            'distinct_nontrivial': len(distinct),
            'rule': 'one evaluation = one CBMC query (harness x configuration x bound split) over the C translation of the real '
                    'LLVM IR; distinct_nontrivial counts distinct (harness, assertion text) obligations that were proved (UNSAT) in a '
                    'query whose reachability witness assert(0) was shown reachable (non-vacuous)',
            'samples': samples,
            'obligations': obligations, 'discharged': discharged,
            'queries': len(results),
            'undecided': [r['job'] for r in results if r['status'] == 'undecided'],
            'machinery_errors': [r['job'] for r in trouble if r['status'] != 'undecided'],
            'known_findings': [f['id'] for f, r in known],
            'solver_wall_s_total': round(sum(r.get('solver_wall_s') or 0 for r in results), 1),
            'checker_cmd': 'cbmc --no-standard-checks --unwinding-assertions --drop-unused-functions --slice-formula (minisat)',
            'trusted_base': ['clang 14 -O1 IR as semantics', 'tools/ir2c.py translation (validated by native replay of counterexamples)',
                             'CBMC 6.11 + SAT back end', 'rt/rt.c models of: ' + ', '.join(stubs)],
            'exhaustive': False,
        },
        'assumptions': ['bounds as listed per sample (node slots, node sizes, heap size, unwinding with --unwinding-assertions)',
                        'pre-states are constrained only by the representation invariant written in the harness',
                        'undef/poison treated as 0; nsw/nuw/inbounds flags ignored (wrap-around semantics)',
                        'atomics sequentially consistent'],
        'wall_s': round(wall, 2),
        'violations': len(violations),
    }
    os.makedirs(os.path.join(VERIF, 'evidence'), exist_ok=True)
    json.dump(ev, open(os.path.join(VERIF, 'evidence', prop + '.json'), 'w'), indent=1)

def do_replay(registry, path):
    jname = None
    for ln in open(path):
        if ln.startswith('J '): jname = ln[2:].strip()
    job = next((j for j in registry if j.name == jname), None)
    if not job:
        print('unknown job in replay file'); return 2
    g = get_group(job)
    exe = build.build_native(g, job.harness, defines=job.cfg_defines() + job.defines)
    p = subprocess.run([exe, path], stdout=subprocess.PIPE, stderr=subprocess.STDOUT, text=True)
    print(p.stdout)
    return 1 if p.returncode == 1 else (0 if p.returncode == 0 else 2)
