"""per-property level texts for MANIFEST.json"""
NOTE = ('Bounded: every verdict holds for all inputs/states inside the bounds listed per query in the evidence (node slots, node sizes, '
        'heap size, loop unwindings checked by --unwinding-assertions) and says nothing outside them. Trusted: clang 14 -O1 IR as the '
        'semantics, tools/ir2c.py, CBMC 6.11 + SAT solver, the runtime stubs listed in the evidence, the representation invariants '
        'written in the harnesses (base case and preservation are themselves checked).')
TEXT = {
 'C19': {'text': 'Every arithmetic kernel (round_up, align_offset, is_aligned, alignment_for, ilog2 family, access policies) is compared with its '
                 'mathematical definition for ALL 64-bit inputs and all 64 power-of-two alignments by the SAT solver; these kernels are loop-free so no '
                 'unwinding bound applies. Bucket selection of free_list_array is checked for all sizes up to the stated maximum.', 'note': NOTE},
 'C01': {'text': 'One-step induction: from ANY state of each data structure that satisfies its representation invariant (bounded number of node slots / '
                 'blocks), every operation re-establishes the invariant, hands out only memory that was free and inside owned blocks, and leaves a '
                 'symbolic witness byte outside the bytes it may touch unchanged. Histories of any length follow by induction; what is bounded is the '
                 'size of the state, not the length of the history.', 'note': NOTE},
 'C02': {'text': 'Same inductive steps as C01 with assertions on the result: non-null, aligned for the requested/promised alignment, '
                 'count*size contiguous bytes inside the run removed from the free list or inside the block.', 'note': NOTE},
 'C04': {'text': 'Free-list level mask algebra from arbitrary valid states: allocate(n) removes exactly ceil(n/node_size) address-contiguous free nodes and '
                 'deallocate(p, n) adds exactly those back; single-node allocate/deallocate likewise; capacity_ equals the number of reachable nodes '
                 '(the structural self-check is the invariant itself, no hook needed).', 'note': NOTE},
 'C12': {'text': 'Move construction, move assignment and swap from arbitrary valid source/target states at distinct addresses: destination owns '
                 'exactly the source state, source is a valid empty object, no pool byte outside link words changes.', 'note': NOTE},
 'C16': {'text': 'From arbitrary valid states: a release of an already-free node in double-free-checking builds reaches the invalid-pointer handler '
                 '(or stops) with the offending pointer; every valid operation in every harness asserts the handler was not called.', 'note': NOTE},
 'C17': {'text': 'Fill patterns: after allocate the whole node carries the new-memory pattern, after deallocate the freed pattern outside the link word, '
                 'a witness byte in neighbouring live memory is unchanged; fences of the low-level allocators with a symbolic corrupted offset.', 'note': NOTE},
 'C18': {'text': 'min_block_size formulas against the number of nodes insert() really produces (symbolic node size and count), counter deltas in '
                 'the C01/C04 steps, maxima as upper bounds.', 'note': NOTE},
}
TEXT.update({
 'C03': {'text': 'Exception model on the real code: for every throwing entry point wrapped so far (iteration_allocator, memory_stack, pool collection, adapters) '
                 'a normal return is non-null and an exceptional return carries an out_of_memory / bad_allocation_size family exception whose real constructor '
                 'called the registered handler exactly once; try_ functions never throw, never call the upstream hook, and leave the state unchanged when they '
                 'return null; the upstream hook fails nondeterministically at every call.', 'note': NOTE},
 'C05': {'text': 'A recording upstream hook keeps a ledger (address, size, acquisition number) of every block; from arbitrary valid arena/stack/collection '
                 'states the destructor, shrink_to_fit, unwind, move and growth steps are checked against it: every return matches a held block, with its size, '
                 'is the newest outstanding block (reverse order) and happens once; cached blocks are reused before the upstream is asked.', 'note': NOTE},
 'C06': {'text': 'unwind(m) from an arbitrary valid stack state for an arbitrary earlier marker restores top(), capacity_left() and the block stacks exactly '
                 '(dropped blocks cached, nothing returned upstream, older bytes untouched); a symbolic script top/allocate/allocate/unwind/replay yields the same '
                 'addresses with the upstream forbidden; marker comparison operators are a total order (trichotomy, transitivity) over full 64-bit fields.', 'note': NOTE},
 'C07': {'text': 'iteration_allocator<N> for N = 1,2,3,5 (thorough 1..5): base case (constructor agrees with block_start for every symbolic block size, '
                 'including size % N != 0) and inductive steps for allocate / try_allocate / next_iteration from states with every top symbolic.', 'note': NOTE},
 'C08': {'text': 'Ownership: iteration_allocator and pool collection try_deallocate accept exactly pointers inside their blocks (symbolic pointer anywhere in the heap); '
                 'routing: fallback_allocator, nested fallback, fallback over aligned_allocator and binary_segregator over recording leaves whose ownership is '
                 'decided by the harness: every release reaches the leaf that served the allocation with the same kind and parameters.', 'note': NOTE},
 'C09': {'text': 'Eleven wrapper compositions (direct / reference / type-erased storage, thread_safe, aligned, tracked, segregator, fallback nestings, depth 3) x '
                 'throwing/composable x node/array with symbolic size, count, alignment and leaf behaviour: one downstream request per upstream request, '
                 'enough bytes, alignment not smaller, identical tuple on release, tracker sees each success once; std_allocator, memory_resource_adapter and the '
                 'deleters (incl. a 70016-byte derived type) likewise.', 'note': NOTE},
 'C13': {'text': 'Lock discipline, decided per forwarding member: the recording leaf asserts that the harness mutex is held on every entry (allocation, release, '
                 'composable variants, max_* queries, lock() proxy) and the harness asserts it is released afterwards, also when the call threw; allocators '
                 'without a mutex type take no lock. Mutual exclusion for any number of threads then follows from the lock argument (an argument, not a query). '
                 'A syntactic audit of the freshly linked IR additionally requires every access to the process-wide leak counters, handler pointers and the temporary stack list head to be an atomic instruction (not a solver query). Instruction-level interleavings are not explored.', 'note': NOTE + ' std::mutex itself is trusted; interleavings are not enumerated.'},
 'C15': {'text': 'memory_stack: the leak counter is part of the symbolic pre-state; traits-level allocate/deallocate move it by exactly count*size; the destructor '
                 'calls the installed leak handler exactly once with the exact net amount iff it is non-zero; a moved-from object reports nothing and the count '
                 'moves with the object. memory_pool<array_pool> and memory_pool_collection<node_pool, log2_buckets> steps (allocate/deallocate node and array, composable variants, destructor, move) carry a symbolic counter too and assert the same deltas in leak-checking configurations; lowlevel allocators: the process-wide counter with 1..3 counter objects.', 'note': NOTE},
 'C10': {'text': 'Narrower than the statement: std_allocator equality (equal iff same referenced stateful allocator object; memory from one is released to the same '
                 'leaf through an equal copy) and the node/array decision of std_allocator::allocate/deallocate for element types of size/alignment (1,1) (3,1) (24,8) (48,16). '
                 'Real libstdc++ code of std::vector, std::forward_list and std::list on std_allocator over two recording leaf allocators is executed symbolically for '
                 'enumerated operation sequences (push, pop, clear, copy/move assignment, swap, copy/move construction, destruction) with the second container bound to the '
                 'same or the other allocator object: every release goes to the allocator object that served it with matching parameters, nothing is outstanding at the '
                 'end, node requests stay within X_node_size<T>. Associative / unordered containers, deque and string (algorithms inside libstdc++.so) are outside the claim.', 'note': NOTE + ' std::list hook/unhook/transfer/swap are 5-line models.'},
})
TEXT.update({
 'C11': {'text': 'allocate_joint over a recording leaf with symbolic additional size (0..64, exact fit included), two member arrays of symbolic lengths and a '
                 'constructor failing at a symbolic index: one upstream node of sizeof(T)+additional, every piece inside the joint memory behind the object, aligned, '
                 'disjoint; a request that does not fit throws out_of_fixed_memory; destruction/reset/move release the block whole, once, with the allocation parameters. '
                 'clone_joint is checked in the thorough tier only.', 'note': NOTE},
 'C20': {'text': 'Exception model on the real code (landing pads, catch(...)/rethrow of detail::construct, unique_ptr guards): element type whose constructors throw at a '
                 'symbolic call index; on the exceptional path every constructed element is destroyed exactly once, none twice or unconstructed, the memory is '
                 'released once with the request parameters and the exception propagates; on success constructed and later destroyed once each. allocate_shared is '
                 'outside the claim (its libstdc++ control-block code exceeded the solver budget).', 'note': NOTE},
})
TEXT.update({
 'C14': {'text': 'Sequential part: nested temporary_allocators with symbolic allocation sizes (growth included) restore the thread stack exactly. Stack list: '
                 'the real create/find_unused/clear/destroy, nifty counter and thread-exit detector code runs over per-thread copies of the thread_local variables '
                 'for every 2-step schedule of 2 threads over {use, initializer scope, thread exit} (+ program exit); schedules are enumerated by the driver, so for '
                 'this part the solver only executes; two recorded findings (known_findings.json) are reported as KNOWN-FINDING. Instruction-level interleavings '
                 'of the lock-free list are not explored.', 'note': NOTE + ' Thread-local storage, __cxa_thread_atexit and program exit are modelled (rt.c); counterexamples of the schedule harness are not replayed natively.'},
})
NOT_APPLICABLE = {}
