// common definitions for verification shims (see DESIGN.md 1.2)
#ifndef VERIF_SHIM_COMMON_HPP
#define VERIF_SHIM_COMMON_HPP
#include <cstddef>
#include <cstdint>
#include <new>
typedef unsigned long ulong;
#define W extern "C" __attribute__((noinline))
#endif
