/* One-step inductive harness for the two intrusive free lists (C01, C02, C04, C12, C16, C17-pool part).
 *   -DLISTKIND=1  free_memory_list          -DLISTKIND=2  ordered_free_memory_list
 *   -DOP=...      which operation (see below)
 * Pre-state: ANY list satisfying the representation invariant Inv over S node slots in one or two blocks
 * placed at symbolic addresses, arbitrary memory elsewhere.  Post-state: Inv re-established by an independent
 * walk, abstract free-slot mask changed exactly as the operation's contract says, witness byte outside the
 * bytes the operation may touch unchanged.
 * Bounds: NB slots in block 1, NB2 in block 2 (S = NB+NB2 <= 8), node size NS_MIN..NS_MAX. */
#include "verif.h"

#ifndef NB
#define NB 3
#endif
#ifndef NB2
#define NB2 0
#endif
#define S (NB + NB2)
#ifndef NS_MIN
#define NS_MIN 8
#endif
#ifndef NS_MAX
#define NS_MAX 16
#endif
#ifndef CFG_FILL
#define CFG_FILL 0
#endif
#ifndef CFG_DOUBLE
#define CFG_DOUBLE 0
#endif

#define OP_ALLOC 1
#define OP_DEALLOC 2
#define OP_ALLOC_N 3
#define OP_DEALLOC_N 4
#define OP_INSERT 5
#define OP_CTOR 6
#define OP_MOVE_CTOR 7
#define OP_MOVE_ASSIGN 8
#define OP_SWAP 9
#define OP_ROUNDTRIP_N 10   /* allocate(n) then deallocate(p, n) restores the mask (C04) */
#define OP_DOUBLE_FREE 11   /* C16: release of a node that is already free */

#if LISTKIND == 1
#define LP(f) w_fl_##f
#else
#define LP(f) w_ofl_##f
#endif

/* ------------------------------------------------------------------ ghost */
static uint64_t ns;            /* node size */
static uint64_t B1, B2;        /* block addresses */
static uint64_t nb1, nb2;      /* number of node slots in each block */
static int handler_calls; static uint64_t handler_ptr;

void verif_invalid_pointer(uint64_t name, uint64_t alloc, uint64_t ptr)
{
    (void)name; (void)alloc;
    handler_calls++; handler_ptr = ptr;
#ifdef HANDLER_STOPS
#ifdef WITNESS
    ASSERT(0, "WITNESS: invalid-pointer handler reached");
#endif
    ASSUME(0);   /* a handler may end the program; then nothing after it matters */
#endif
}

static int slot_valid(int s) { return s < NB ? (uint64_t)s < nb1 : (uint64_t)(s - NB) < nb2; }
static uint64_t SA[S];          /* slot addresses, filled once (avoids symbolic multiplications) */
static void init_slots(void)
{
    for (int s = 0; s < S; ++s) SA[s] = s == 0 ? B1 : s == NB ? B2 : SA[s - 1] + ns;
}
static uint64_t slot_addr(int s)
{
    for (int k = 0; k < S; ++k) if (k == s) return SA[k];
    return 0;
}
static int addr_slot(uint64_t a)
{
    for (int s = 0; s < S; ++s)
        if (slot_valid(s) && slot_addr(s) == a) return s;
    return -1;
}
static uint64_t align_of_ns(uint64_t n)
{
    uint64_t a = n & (~n + 1);
    return a > 16 ? 16 : a;
}
static uint64_t mul_small(uint64_t k, uint64_t v)
{   /* k * v for k <= S + 1 without a symbolic multiplier */
    uint64_t r = 0;
    for (int i = 0; i <= S; ++i) if ((uint64_t)i < k) r += v;
    return r;
}
static uint64_t nodes_for(uint64_t n)
{   /* least c >= 1 with c * ns >= n, for n <= S * ns */
    uint64_t c = 1, acc = ns;
    for (int i = 0; i < S; ++i) if (acc < n) { acc += ns; ++c; }
    return c;
}
static int disjoint(uint64_t a, uint64_t an, uint64_t b, uint64_t bn) { return a + an <= b || b + bn <= a; }

/* a list object */
struct lst { uint64_t L; };

#if LISTKIND == 1
#define LSIZE 24
static uint64_t L_first(uint64_t L) { return H64(L + w_off_fl_first()); }
static uint64_t L_ns(uint64_t L) { return H64(L + w_off_fl_node_size()); }
static uint64_t L_cap(uint64_t L) { return H64(L + w_off_fl_capacity()); }
#else
#define LSIZE 48
static uint64_t L_begin(uint64_t L) { return L + w_off_ofl_begin(); }
static uint64_t L_end(uint64_t L) { return L + w_off_ofl_end(); }
static uint64_t L_ns(uint64_t L) { return H64(L + w_off_ofl_node_size()); }
static uint64_t L_cap(uint64_t L) { return H64(L + w_off_ofl_capacity()); }
static uint64_t L_ld(uint64_t L) { return H64(L + w_off_ofl_last_dealloc()); }
static uint64_t L_ldp(uint64_t L) { return H64(L + w_off_ofl_last_dealloc_prev()); }
#endif

/* Establish Inv for the list object at L holding exactly the slots of a symbolic sequence; returns the mask. */
static uint32_t assume_inv(uint64_t L, uint32_t forbidden)
{
    uint64_t cap = nondet_u8();
    ASSUME(cap <= S);
    int q[S];
    uint32_t mask = 0;
    for (int i = 0; i < S; ++i) {
        q[i] = (int)nondet_u8();
        if ((uint64_t)i < cap) {
            ASSUME(q[i] >= 0 && q[i] < S && slot_valid(q[i]));
            ASSUME(!((mask | forbidden) >> q[i] & 1));
            mask |= 1u << q[i];
        }
    }
    /* the state is established by writing the representation into otherwise arbitrary (havoc'd) memory:
       every memory satisfying Inv is obtained this way */
#if LISTKIND == 1
    HS64(L + w_off_fl_node_size(), ns);
    HS64(L + w_off_fl_capacity(), cap);
    HS64(L + w_off_fl_first(), cap ? slot_addr(q[0]) : 0);
    for (int i = 0; i < S; ++i)
        if ((uint64_t)i < cap)
            HS64(slot_addr(q[i]), (uint64_t)(i + 1) < cap ? slot_addr(q[i + 1]) : 0);
#else
    HS64(L + w_off_ofl_node_size(), ns);
    HS64(L + w_off_ofl_capacity(), cap);
    /* xor-linked, strictly increasing addresses, through the two sentinels embedded in the object */
    uint64_t prev = 0, cur = L_begin(L);
    for (int i = 0; i <= S; ++i) {
        if ((uint64_t)i <= cap) {
            uint64_t next = (uint64_t)i < cap ? slot_addr(q[i]) : L_end(L);
            if (i > 0 && (uint64_t)i < cap) ASSUME(slot_addr(q[i - 1]) < slot_addr(q[i]));
            HS64(cur, prev ^ next);
            prev = cur; cur = next;
        }
    }
    HS64(L_end(L), prev);              /* end sentinel: prev ^ 0 */
    /* (last_dealloc_prev_, last_dealloc_) is an adjacent pair of the sequence begin, n0, .., end */
    uint64_t j = nondet_u8();
    ASSUME(j <= cap);
    uint64_t pj = L_begin(L), nj = L_end(L);
    for (int i = 0; i < S; ++i) {
        if ((uint64_t)i + 1 == j) pj = slot_addr(q[i]);
        if ((uint64_t)i == j && j < cap) nj = slot_addr(q[i]);
    }
    HS64(L + w_off_ofl_last_dealloc_prev(), pj);
    HS64(L + w_off_ofl_last_dealloc(), nj);
#endif
    return mask;
}

/* Independent walk of the list at L: asserts Inv, returns the mask of free slots. */
static int check_cache = 1;    /* cleared for moved-from objects: their insertion-position cache is a dead value (they may only be destroyed or assigned to) */
static uint32_t check_inv(uint64_t L, const char* unused)
{
    (void)unused;
    uint32_t mask = 0; uint64_t n = 0;
    ASSERT(L_ns(L) == ns, "Inv: node_size_ unchanged");
#if LISTKIND == 1
    uint64_t cur = L_first(L);
    int done = 0;
    for (int i = 0; i <= S; ++i) {
        if (!done) {
            if (cur == 0) done = 1;
            else {
                int s = addr_slot(cur);
                ASSERT(s >= 0, "Inv: every node on the free list is a node slot of an inserted block");
                if (s < 0) return mask;
                ASSERT(!(mask >> s & 1), "Inv: no node is on the free list twice (acyclic)");
                mask |= 1u << s; ++n;
                cur = H64(cur);
            }
        }
    }
    ASSERT(done, "Inv: free list is null-terminated within the number of slots");
#else
    uint64_t prev = L_begin(L), cur = H64(L_begin(L)), last = 0;
    int done = 0, seen_ld = 0;
    if (L_ldp(L) == prev && L_ld(L) == cur) seen_ld = 1;
    for (int i = 0; i <= S; ++i) {
        if (!done) {
            if (cur == L_end(L)) done = 1;
            else {
                int s = addr_slot(cur);
                ASSERT(s >= 0, "Inv: every node on the free list is a node slot of an inserted block");
                if (s < 0) return mask;
                ASSERT(!(mask >> s & 1), "Inv: no node is on the free list twice");
                ASSERT(last == 0 || last < cur, "Inv: ordered list is strictly increasing by address");
                mask |= 1u << s; ++n; last = cur;
                uint64_t next = H64(cur) ^ prev;
                prev = cur; cur = next;
                if (L_ldp(L) == prev && L_ld(L) == cur) seen_ld = 1;
            }
        }
    }
    ASSERT(done, "Inv: ordered list reaches the end sentinel within the number of slots");
    ASSERT(H64(L_end(L)) == prev, "Inv: end sentinel links back to the last node");
    if (check_cache) ASSERT(seen_ld, "Inv: (last_dealloc_prev_, last_dealloc_) is an adjacent pair of the list");
#endif
    ASSERT(L_cap(L) == n, "Inv: capacity_ equals the number of nodes on the list");
    return mask;
}

/* the c slots at addresses p, p+ns, ..: returns their mask, *ok = all exist (address-contiguous nodes, possibly
   spanning two blocks that happen to be adjacent in memory) */
static uint32_t run_at(uint64_t p, uint64_t c, int* ok)
{
    uint32_t run = 0; uint64_t a = p; *ok = 1;
    for (int k = 0; k < S; ++k)
        if ((uint64_t)k < c) {
            int s = addr_slot(a);
            if (s < 0) *ok = 0; else run |= 1u << s;
            a += ns;
        }
    return run;
}
static int popcount(uint32_t m) { int c = 0; for (int i = 0; i < S; ++i) c += m >> i & 1; return c; }

void harness(void)
{
    HAVOC_HEAP();
    w_install_handlers();
#if NS_MIN == NS_MAX
    ns = NS_MIN;                      /* one query per node size: a constant lets divisions by node_size_ fold */
#else
    ns = nondet_u8(); ASSUME(ns >= NS_MIN && ns <= NS_MAX);
#endif
#ifdef NS_ALIGN8
    ASSUME((ns & 7) == 0);
#endif
    uint64_t al = align_of_ns(ns);
    nb1 = nondet_u8(); nb2 = nondet_u8();
    ASSUME(nb1 >= 1 && nb1 <= NB && nb2 <= NB2);
#if OP == OP_INSERT
    ASSUME(nb2 >= 1);
#endif
    uint64_t len1 = mul_small(nb1, ns), len2x = mul_small(nb2 + 1, ns);
    /* Placement.  The lists never look at absolute addresses, only at their order (ordered list: also relative to
       the sentinels inside the list object) and at adjacency of nodes, so the layout is one of a few concrete
       arrangements chosen by the solver: objects below / between / above the blocks, blocks in either order,
       blocks adjacent (when block 1 is full size) or separated by a gap; -DLAY / -DGAP select it.  (Alignment residues matter for the bump allocators, which keep
       symbolic addresses; see stack_step.c.) */
#ifndef LAY
#define LAY 0
#endif
#ifndef GAP
#define GAP 0
#endif
    /* compile-time layout (one query per layout): every object address is concrete, blocks sit at a fixed stride */
    uint64_t gap = GAP ? 16 : 0;
    uint64_t r1 = (mul_small(NB, ns) + 15) & ~UINT64_C(15), r2 = (mul_small(NB2 + 1, ns) + 15) & ~UINT64_C(15);
    uint64_t L, L2;
    if (LAY == 0)      { L = HEAP_BASE; L2 = L + LSIZE; B1 = L2 + LSIZE; B2 = B1 + (gap ? r1 + gap : mul_small(NB, ns)); }
    else if (LAY == 1) { B1 = HEAP_BASE; L = B1 + r1; L2 = L + LSIZE; B2 = L2 + LSIZE; }
    else if (LAY == 2) { B2 = HEAP_BASE; B1 = B2 + (gap ? r2 + gap : mul_small(NB2 + 1, ns)); L = B1 + r1; L2 = L + LSIZE; }
    else               { L2 = HEAP_BASE; B2 = L2 + LSIZE; B1 = B2 + r2 + gap; L = B1 + r1; }
    ASSUME((B1 & (al - 1)) == 0 && (B2 & (al - 1)) == 0);
    ASSUME(IN_HEAP(L, LSIZE) && IN_HEAP(L2, LSIZE) && IN_HEAP(B1, len1) && IN_HEAP(B2, len2x));
    init_slots();
    /* witness byte: anywhere in the heap; which bytes it must avoid depends on the operation */
    uint64_t wa = HEAP_BASE + (uint64_t)nondet_u8(); ASSUME(IN_HEAP(wa, 1));
    uint8_t wv;
    int w_in_obj = !disjoint(wa, 1, L, LSIZE);
#define W_IN_SLOT(s) (slot_valid(s) && wa >= slot_addr(s) && wa < slot_addr(s) + ns)
    int w_slot = -1;
    for (int s = 0; s < S; ++s) if (W_IN_SLOT(s)) w_slot = s;

#if OP == OP_CTOR
    /* base case: constructor establishes Inv with the empty mask; ctor(ns, mem, size) = ctor + insert */
    uint64_t req = nondet_u8(); ASSUME(req >= 1 && (req < 8 ? 8 : req) == ns);
    ASSUME(!w_in_obj); wv = H8(wa);
    LP(ctor)(L, req);
    ASSERT(check_inv(L, "") == 0, "ctor: list starts empty");
    ASSERT(H8(wa) == wv, "ctor: writes nothing outside the object");
    ASSERT(LP(node_size)(L) == ns && LP(capacity)(L) == 0 && LP(empty)(L) == 1, "ctor: observers");
    ASSERT(LP(alignment)(L) == align_of_ns(ns), "alignment() is the natural alignment of the node size");
    ASSERT(LP(min_block_size)(req, 3) == 3 * ns, "min_block_size(ns, n) = n * max(ns, min_element_size)");
#elif OP == OP_INSERT
    uint32_t pre = assume_inv(L, 0);
    ASSUME((pre >> NB) == 0 && nb2 >= 1);           /* block 2 not yet inserted */
    uint64_t extra = nondet_u64(); ASSUME(extra < ns);
    uint64_t size = mul_small(nb2, ns) + extra;                /* size need not be a multiple of the node size */
    ASSUME(!w_in_obj && !(w_slot >= 0 && ((pre >> w_slot & 1) || w_slot >= NB)));
    ASSUME(!(wa >= B2 && wa < B2 + size));
    wv = H8(wa);
    ASSERT(LP(usable_size)(L, size) == mul_small(nb2, ns), "usable_size rounds down to whole nodes");
    LP(insert)(L, B2, size);
    uint32_t post = check_inv(L, "");
    uint32_t want = pre; for (int s = NB; s < S; ++s) if (slot_valid(s)) want |= 1u << s;
    ASSERT(post == want, "insert: adds exactly the nodes of the new block, keeps the others");
    ASSERT(H8(wa) == wv, "insert: writes only into the new block, free nodes and the list object");
    ASSERT(handler_calls == 0, "insert: no invalid-pointer report on a valid insert");
#elif OP == OP_ALLOC
    uint32_t pre = assume_inv(L, 0);
    ASSUME(pre != 0);
    ASSUME(!w_in_obj && !(w_slot >= 0 && (pre >> w_slot & 1)));
    wv = H8(wa);
    uint64_t p = LP(allocate)(L);
    int s = addr_slot(p);
    ASSERT(s >= 0, "allocate: result is a node slot inside an inserted block");
    ASSERT(s >= 0 && (pre >> s & 1), "allocate: result was a free node (not a live allocation)");
    uint32_t post = check_inv(L, "");
    ASSERT(s >= 0 && post == (pre & ~(1u << s)), "allocate: removes exactly the returned node");
    ASSERT(H8(wa) == wv, "allocate: live nodes and foreign memory untouched");
    ASSERT((p & (al - 1)) == 0, "allocate: node aligned for alignment()");
#if CFG_FILL
    { uint64_t j = nondet_u8(); ASSUME(j < ns); ASSERT(H8(p + j) == 0xCD, "allocate: node carries the new-memory pattern"); }
#endif
    ASSERT(handler_calls == 0, "allocate: no invalid-pointer report");
#elif OP == OP_DEALLOC || OP == OP_DOUBLE_FREE
    uint32_t pre = assume_inv(L, 0);
    int s = (int)nondet_u8(); ASSUME(s >= 0 && s < S && slot_valid(s));
#if OP == OP_DEALLOC
    ASSUME(!(pre >> s & 1));                         /* a live node */
    ASSUME(!w_in_obj && w_slot != s && !(w_slot >= 0 && (pre >> w_slot & 1)));
    wv = H8(wa);
    LP(deallocate)(L, slot_addr(s));
    uint32_t post = check_inv(L, "");
    ASSERT(post == (pre | 1u << s), "deallocate: adds exactly the released node");
    ASSERT(H8(wa) == wv, "deallocate: other live nodes and foreign memory untouched");
#if CFG_FILL
    if (ns > 8) { uint64_t j = nondet_u8(); ASSUME(j >= 8 && j < ns); ASSERT(H8(slot_addr(s) + j) == 0xDD, "deallocate: node carries the freed-memory pattern outside the link word"); }
#endif
    ASSERT(handler_calls == 0, "deallocate: a valid release is never reported");
#else
    /* C16: releasing a node that is already on the (ordered, double-free checking) list */
    ASSUME(pre >> s & 1);
    LP(deallocate)(L, slot_addr(s));
    /* reaching here means the program was not stopped: the handler must have been told, about this pointer */
    ASSERT(handler_calls >= 1, "double free: reported through the invalid-pointer handler (or the program stops)");
    ASSERT(handler_ptr == slot_addr(s), "double free: the offending pointer is reported");
#endif
#elif OP == OP_ALLOC_N || OP == OP_ROUNDTRIP_N
    uint32_t pre = assume_inv(L, 0);
    ASSUME(pre != 0);
    uint64_t n = nondet_u16(); ASSUME(n >= 1 && n <= mul_small(S, ns));
    uint64_t c = nodes_for(n);     /* nodes needed: ceil(n / ns) */
    ASSUME(!w_in_obj && !(w_slot >= 0 && (pre >> w_slot & 1)));
    wv = H8(wa);
    uint64_t p = LP(allocate_n)(L, n);
    uint32_t post = check_inv(L, "");
    if (p == 0) {
        ASSERT(post == pre, "allocate(n): a failed array allocation changes nothing");
        ASSERT(n > ns, "allocate(n): a single-node request on a non-empty list cannot fail");
#if LISTKIND == 2
        /* the ordered list must find a run whenever one exists */
        for (int s = 0; s < S; ++s)
            if (slot_valid(s)) {
                int ok; uint32_t run = run_at(slot_addr(s), c, &ok);
                ASSERT(!(ok && (run & ~pre) == 0), "allocate(n): ordered list fails only when no run of contiguous free nodes exists");
            }
#endif
    } else {
        int ok; uint32_t run = run_at(p, c, &ok);
        ASSERT(ok, "allocate(n): result is a run of ceil(n/node_size) address-contiguous node slots");
        ASSERT((run & ~pre) == 0, "allocate(n): every node of the run was free (no live allocation handed out again)");
        ASSERT(post == (pre & ~run), "allocate(n): removes exactly that run");
        ASSERT((p & (al - 1)) == 0, "allocate(n): aligned");
#if CFG_FILL
        { uint64_t j = nondet_u8(); ASSUME(j < n); ASSERT(H8(p + j) == 0xCD, "allocate(n): all n bytes carry the new-memory pattern"); }
#endif
#if OP == OP_ROUNDTRIP_N
        LP(deallocate_n)(L, p, n);
        uint32_t post2 = check_inv(L, "");
        ASSERT(post2 == pre, "C04: deallocate(p, n) after allocate(n) restores exactly the free nodes (no capacity lost)");
        ASSERT(LP(capacity)(L) == (uint64_t)popcount(pre), "C04: capacity() is back to its old value");
#endif
    }
    ASSERT(H8(wa) == wv, "allocate(n): live nodes and foreign memory untouched");
    ASSERT(handler_calls == 0, "allocate(n): no invalid-pointer report");
#elif OP == OP_DEALLOC_N
    uint32_t pre = assume_inv(L, 0);
    uint64_t n = nondet_u16(); ASSUME(n >= 1 && n <= mul_small(S, ns));
    uint64_t c = nodes_for(n);
    int s = (int)nondet_u8(); ASSUME(s >= 0 && s < S && slot_valid(s));
    int rok; uint32_t run = run_at(slot_addr(s), c, &rok);
    ASSUME(rok && (run & pre) == 0);                 /* a live array of c address-contiguous nodes */
    ASSUME(!w_in_obj && !(w_slot >= 0 && ((pre | run) >> w_slot & 1)));
    wv = H8(wa);
    LP(deallocate_n)(L, slot_addr(s), n);
    uint32_t post = check_inv(L, "");
    ASSERT(post == (pre | run), "deallocate(p, n): gives back every node the array occupied (ceil(n/node_size))");
#if CFG_FILL
    /* all n released bytes carry the freed pattern, except the link word at the start of each node */
    { uint64_t j = nondet_u8(); ASSUME(j < n); uint64_t inner = j; for (int k2 = 0; k2 < S; ++k2) if (inner >= ns) inner -= ns;
      if (inner >= 8) ASSERT(H8(slot_addr(s) + j) == 0xDD, "C17: a released array carries the freed-memory pattern over all its n bytes outside the link words"); }
#endif
    ASSERT(H8(wa) == wv, "deallocate(p, n): other live nodes untouched");
    ASSERT(handler_calls == 0, "deallocate(p, n): a valid release is never reported");
#elif OP == OP_MOVE_CTOR
    uint32_t pre = assume_inv(L, 0);
    ASSUME(!w_in_obj && disjoint(wa, 1, L2, LSIZE) && !(w_slot >= 0 && (pre >> w_slot & 1)));
    wv = H8(wa);
    LP(move_ctor)(L2, L);
    ASSERT(check_inv(L2, "") == pre, "move ctor: destination owns exactly the source's free nodes");
    check_cache = 0;
    ASSERT(check_inv(L, "") == 0, "move ctor: source is a valid empty list");
    check_cache = 1;
    ASSERT(H8(wa) == wv, "move ctor: live nodes untouched");
#elif OP == OP_MOVE_ASSIGN || OP == OP_SWAP
    uint32_t pre = assume_inv(L, 0);
    uint32_t pre2 = assume_inv(L2, pre);
    ASSUME(!w_in_obj && disjoint(wa, 1, L2, LSIZE) && !(w_slot >= 0 && ((pre | pre2) >> w_slot & 1)));
    wv = H8(wa);
#if OP == OP_SWAP
    LP(swap)(L2, L);
    ASSERT(check_inv(L2, "") == pre, "swap: first gets the second's nodes");
    ASSERT(check_inv(L, "") == pre2, "swap: second gets the first's nodes");
#else
    LP(move_assign)(L2, L);
    ASSERT(check_inv(L2, "") == pre, "move assign: destination owns exactly the source's free nodes");
    { check_cache = 0; uint32_t r = check_inv(L, ""); check_cache = 1; ASSERT(r == 0 || r == pre2, "move assign: source is a valid list (empty or holding the target's old nodes)"); }
#endif
    ASSERT(H8(wa) == wv, "move assign/swap: live nodes untouched");
#else
#error "OP"
#endif
#ifndef HANDLER_STOPS
    WITNESS_END();
#endif
}
