/* memory_stack<growing_block_allocator<hook_raw>> : base case + one inductive step per operation, and the C06 script.
 * Properties: C01 C02 C03 C05 C06 C12 C15 C16 C18.
 * Pre-state: ANY stack satisfying Inv+ : 1..KU used blocks and 0..KC cached blocks in symbolic slots of the heap
 * (any address order), symbolic block sizes, bump pointer anywhere in the top block, symbolic next block size,
 * symbolic leak counter.  Upstream = recording hook that may fail at every call (hooks_common.h). */
#if OP == 11
#define HANDLER_STOPS
#define HANDLER_CHECK() bad_unwind_check()
static void bad_unwind_check(void);
#endif
#include "hooks_common.h"

#ifndef KU
#define KU 2
#endif
#ifndef KC
#define KC 1
#endif
#define NS_ (KU + KC + 1)       /* slots: room for one fresh block */
#ifndef SLOT
#define SLOT 80                 /* slot stride: bases are 16-aligned and take every residue modulo 64 */
#endif
#ifndef SMAX
#define SMAX 40
#endif
#define OBJ 64
#define MK 24                   /* sizeof(marker) */

#define OP_CTOR 1
#define OP_ALLOC 2
#define OP_TRY_ALLOC 3
#define OP_UNWIND 4
#define OP_SHRINK 5
#define OP_DTOR 6
#define OP_MOVE_CTOR 7
#define OP_MOVE_ASSIGN 8
#define OP_SCRIPT 9             /* C06: top, allocate x2, unwind, replay */
#define OP_MARKERS 10           /* C06: marker order */
#define OP_BAD_UNWIND 11        /* C16 */
#define OP_TRAITS 12            /* C15/C18: traits level counters and maxima */

static uint64_t L, L2, SB, IO, fence;
static uint64_t slot_base(int s) { return SB + (uint64_t)s * SLOT; }

/* abstract state */
struct st { int ku, kc; int U[KU + 1]; int C[KC + KU]; uint64_t size[NS_]; uint64_t cur, next_bs; int64_t leaked; };

static int slot_of(uint64_t a) { for (int s = 0; s < NS_; ++s) if (slot_base(s) == a) return s; return -1; }

/* establish Inv+ at object obj from fresh nondeterminism; slots taken from 'avail' mask */
static void establish(uint64_t obj, struct st* S, uint32_t* taken, int idbase)
{
    S->ku = nondet_u8(); S->kc = nondet_u8();
    ASSUME(S->ku >= 1 && S->ku <= KU && S->kc >= 0 && S->kc <= KC);
    for (int s = 0; s < NS_; ++s) { S->size[s] = nondet_u8(); ASSUME(S->size[s] >= IO + 8 && S->size[s] <= SLOT && (S->size[s] & 7) == 0); }
    uint64_t prev = 0;
    for (int j = 0; j < KU; ++j) if (j < S->ku) {
        int s = nondet_u8(); ASSUME(s >= 0 && s < NS_ && !(*taken >> s & 1)); *taken |= 1u << s;
        S->U[j] = s;
        w_node_write(slot_base(s), prev, S->size[s] - IO);
        ledger_add(slot_base(s), S->size[s]);                 /* acquisition order: bottom of the used stack first */
        prev = slot_base(s);
    }
    uint64_t used_head = prev;
    /* cached blocks were acquired after every used block; the cache head is the oldest of them */
    int cs[KC + 1];
    for (int j = 0; j < KC; ++j) if (j < S->kc) {
        int s = nondet_u8(); ASSUME(s >= 0 && s < NS_ && !(*taken >> s & 1)); *taken |= 1u << s;
        cs[j] = s; S->C[j] = s;
        ledger_add(slot_base(s), S->size[s]);
    }
    uint64_t cached_head = 0;
    for (int j = KC - 1; j >= 0; --j) if (j < S->kc) {          /* chain: C[0] (head) -> C[1] -> ... -> null */
        w_node_write(slot_base(cs[j]), cached_head, S->size[cs[j]] - IO);
        cached_head = slot_base(cs[j]);
    }
    int top = S->U[S->ku - 1 < 0 ? 0 : S->ku - 1];
    uint64_t off = nondet_u8(); ASSUME(off <= S->size[top] - IO);
    S->cur = slot_base(top) + IO + off;
    S->next_bs = nondet_u8(); ASSUME(S->next_bs >= IO + 8 && S->next_bs <= SLOT && (S->next_bs & 7) == 0);
    /* growing_block_allocator never shrinks its block size: sizes are non-decreasing in acquisition order
       (used bottom..top, then cache head..bottom) and the next block is at least as large as any held one */
    { uint64_t last = 0;
      for (int j = 0; j < KU; ++j) if (j < S->ku) { ASSUME(S->size[S->U[j]] >= last); last = S->size[S->U[j]]; }
      for (int j = 0; j < KC; ++j) if (j < S->kc) { ASSUME(S->size[S->C[j]] >= last); last = S->size[S->C[j]]; }
      ASSUME(S->next_bs >= last); }
    S->leaked = (int64_t)(int8_t)nondet_u8();
#if !CFG_LEAK
    S->leaked = 0;
#endif
    w_ms_set(obj, used_head, cached_head, S->cur, S->next_bs, idbase, S->leaked);
}

/* walk the real object and compare with the expected abstract state */
static void check(uint64_t obj, const struct st* S, const char* unused)
{
    (void)unused;
    uint64_t p = w_ms_used(obj);
    for (int j = KU; j >= 0; --j) if (j < S->ku) {
        ASSERT(p == slot_base(S->U[j]), "Inv+: used block stack holds exactly the expected blocks in acquisition order");
        if (p != slot_base(S->U[j])) return;
        ASSERT(w_node_usable(p) == S->size[S->U[j]] - IO, "Inv+: block header keeps usable_size = block size - implementation_offset");
        p = w_node_prev(p);
    }
    ASSERT(p == 0, "Inv+: used block stack is null-terminated");
    p = w_ms_cached(obj);
    for (int j = 0; j < KC + KU; ++j) if (j < S->kc) {
        ASSERT(p == slot_base(S->C[j]), "Inv+: cache stack holds exactly the expected blocks, oldest on top");
        if (p != slot_base(S->C[j])) return;
        ASSERT(w_node_usable(p) == S->size[S->C[j]] - IO, "Inv+: cached block header intact");
        p = w_node_prev(p);
    }
    ASSERT(p == 0, "Inv+: cache stack is null-terminated");
    ASSERT(w_ms_cur(obj) == S->cur, "bump pointer as expected");
    ASSERT(w_ms_next_bs(obj) == S->next_bs, "next block size as expected");
    ASSERT(w_ms_leaked(obj) == S->leaked, "C15: leak counter as expected");
}

#if OP == 11
static struct st g_pre;
static void bad_unwind_check(void) { check(L, &g_pre, ""); }   /* C16: reported before any block moved or the top changed */
#endif
static uint64_t blk_end(const struct st* S, int s) { return slot_base(s) + S->size[s]; }
static uint64_t aoff(uint64_t a, uint64_t al) { return (al - (a & (al - 1))) & (al - 1); }

/* model of one allocate(size, al): updates S, returns expected address or 0 for "throws"/"null"; *kind: 0 ok, 1 oom(upstream), 2 bad size */
static int fresh_slot;
static uint64_t model_alloc(struct st* S, uint64_t size, uint64_t al, int may_grow, int upstream_ok, int* kind)
{
    int top = S->U[S->ku - 1];
    uint64_t off = aoff(S->cur + fence, al);
    *kind = 0;
    if (fence + off + size + fence <= blk_end(S, top) - S->cur) {
        uint64_t p = S->cur + fence + off; S->cur = p + size + fence; return p;
    }
    if (!may_grow) { *kind = 3; return 0; }
    int nb;
    if (S->kc > 0) { nb = S->C[0]; for (int j = 0; j + 1 < KC + KU; ++j) S->C[j] = S->C[j + 1]; S->kc--; }
    else {
        if (!upstream_ok) { *kind = 1; return 0; }
        nb = fresh_slot; S->size[nb] = S->next_bs; S->next_bs = S->next_bs * 2;
    }
    S->U[S->ku++] = nb;
    S->cur = slot_base(nb) + IO;
    off = aoff(S->cur + fence, al);
    if (fence + off + size + fence > S->size[nb] - IO) { *kind = 2; return 0; }
    uint64_t p = S->cur + fence + off; S->cur = p + size + fence; return p;
}

void harness(void)
{
    HAVOC_HEAP();
    w_install_handlers();
    IO = w_impl_offset(); fence = w_fence();
    ASSERT(w_ms_sizeof() <= OBJ && w_marker_sizeof() == MK, "harness constants cover the object sizes");
    L = HEAP_BASE; L2 = HEAP_BASE + OBJ;
    uint64_t M1 = HEAP_BASE + 2 * OBJ, M2 = M1 + MK, M3 = M2 + MK;
    SB = HEAP_BASE + 2 * OBJ + 3 * MK + 8;          /* 16-aligned */
    ASSERT((SB & 15) == 0, "slot base aligned");
    ASSUME(IN_HEAP(SB, (uint64_t)NS_ * SLOT));
    struct st S, S2; uint32_t taken = 0;
    uint64_t wa = HEAP_BASE + (uint64_t)nondet_u16(); ASSUME(IN_HEAP(wa, 1) && wa >= SB);
    uint8_t wv;
    /* is the witness byte a live byte (header of a held block or below the bump pointer in a used block)? */
#define W_LIVE(Sp) w_live(Sp, wa)

#if OP == OP_CTOR
    uint64_t bs = nondet_u8(); ASSUME(bs >= IO + 8 && bs <= SLOT && (bs & 7) == 0);
    fresh_addr[0] = slot_base(0); n_fresh = 1;
    CLEAR_EXC();
    w_ms_ctor(L, bs, 3);
    if (EXC) {
        ASSERT(exc_is(XK_OOM) && n_oom == 1, "C03: failed construction = upstream out_of_memory, handler called once");
        ASSERT(outstanding() == 0, "C05: nothing held after a failed construction");
    } else {
        S.ku = 1; S.kc = 0; S.U[0] = 0; S.size[0] = bs; S.cur = slot_base(0) + IO; S.next_bs = bs * 2; S.leaked = 0;
        check(L, &S, "");
        ASSERT(n_up_alloc == 1 && up_last_req == bs, "ctor: one upstream block of block_size bytes");
        ASSERT(w_ms_capacity_left(L) == bs - IO, "C18: capacity_left() after construction = block size - implementation_offset");
        ASSERT(w_ms_min_block_size(bs - IO) == bs, "C18: min_block_size(b) bytes give b usable bytes");
        ASSERT(w_ms_next_capacity(L) == bs * 2 - IO, "C18: next_capacity() is the usable size of the next (grown) block");
    }
#elif OP == OP_ALLOC || OP == OP_TRY_ALLOC
    establish(L, &S, &taken, 3);
    for (fresh_slot = 0; fresh_slot < NS_ - 1 && (taken >> fresh_slot & 1); ++fresh_slot) ;
    ASSUME(!(taken >> fresh_slot & 1));
    fresh_addr[0] = slot_base(fresh_slot); n_fresh = 1;
    uint64_t size = nondet_u8(), k = nondet_u8(); ASSUME(size <= SMAX && k <= 6);
    uint64_t al = UINT64_C(1) << k;
    struct st E = S;
    /* witness byte: live memory = headers of all held blocks + bytes below the bump pointer of used blocks */
    int live = 0;
    for (int j = 0; j < KU; ++j) if (j < S.ku) {
        uint64_t b = slot_base(S.U[j]);
        uint64_t lim = j == S.ku - 1 ? S.cur : blk_end(&S, S.U[j]);
        if (wa >= b && wa < lim) live = 1;
    }
    for (int j = 0; j < KC; ++j) if (j < S.kc) { uint64_t b = slot_base(S.C[j]); if (wa >= b + 8 && wa < b + IO) live = 1; }   /* not the link word, a reused block is re-linked */
    ASSUME(live);
    wv = H8(wa);
    uint64_t cap0 = w_ms_capacity_left(L);
    CLEAR_EXC();
#if OP == OP_ALLOC
    uint64_t p = w_ms_allocate(L, size, al);
    int upstream_ok = fresh_used == 1;          /* whether the hook handed out a block */
    int kind; uint64_t want = model_alloc(&E, size, al, 1, n_up_alloc == 0 || upstream_ok, &kind);
    if (n_up_alloc > 0 && !upstream_ok) { E = S; kind = 1; want = 0; }
    if (EXC) {
        ASSERT(kind != 0, "C03: allocate throws only when the request cannot be served");
        if (kind == 1) { ASSERT(exc_is(XK_OOM) && n_oom == 1 && n_badsize == 0, "C03: upstream failure = out_of_memory, its handler called once before the throw"); }
        else { ASSERT(exc_is(XK_BADSIZE) && n_badsize == 1 && n_oom == 0, "C03: request larger than a whole block = bad_allocation_size, its handler called once");
               ASSERT(bad_supported == E.size[E.U[E.ku - 1]] - IO, "C03: handler told the supported size"); }
    } else {
        ASSERT(kind == 0, "allocate returns normally only when the model can serve the request");
        ASSERT(p != 0, "C03: the throwing allocate never returns null");
        ASSERT(p == want, "C01/C02: result is exactly the aligned address above the old top (or at the start of the next block)");
        ASSERT((p & (al - 1)) == 0, "C02: result aligned as requested (alignments up to 64)");
        ASSERT(p >= slot_base(E.U[E.ku - 1]) + IO && p + size + fence <= blk_end(&E, E.U[E.ku - 1]), "C01: result and fence inside the current block, after its header");
        ASSERT(n_oom == 0 && n_badsize == 0, "no handler call on success");
        ASSERT(w_ms_capacity_left(L) == blk_end(&E, E.U[E.ku - 1]) - E.cur, "C18: capacity_left() = block end - top");
        if (E.ku == S.ku) ASSERT(cap0 - w_ms_capacity_left(L) == E.cur - S.cur, "C18: capacity_left() drops by exactly fence + padding + size + fence");
#if CFG_FILL
        if (size > 0) { uint64_t j = nondet_u8(); ASSUME(j < size); ASSERT(H8(p + j) == 0xCD, "C17: allocated bytes carry the new-memory pattern"); }
#endif
    }
    if (S.kc > 0) ASSERT(n_up_alloc == 0, "C05: a cached block is reused before any new block is requested upstream");
    if (n_up_alloc) ASSERT(up_last_req == S.next_bs, "growth requests next_block_size bytes upstream");
#else
    up_alloc_forbidden = 1;
    uint64_t p = w_ms_try_allocate(L, size, al);
    int kind; uint64_t want = model_alloc(&E, size, al, 0, 0, &kind);
    ASSERT(!EXC && n_oom == 0 && n_badsize == 0, "C03: try_allocate never throws and never calls a handler");
    ASSERT(p == want, "try_allocate: aligned address above the old top, or null when it does not fit the current block");
    if (p == 0) E = S;
#endif
    check(L, &E, "");
    ASSERT(H8(wa) == wv, "C01: live bytes (older allocations, block headers) untouched");
    ASSERT(n_up_dealloc == 0, "no block is returned upstream by an allocation");
#elif OP == OP_UNWIND || OP == OP_BAD_UNWIND
    establish(L, &S, &taken, 3);
    /* a marker taken earlier: (index, top, end) with index <= current index */
    uint64_t mi = nondet_u8(); ASSUME(mi < (uint64_t)S.ku);
    int mb = S.U[mi < KU ? mi : 0];
    uint64_t moff = nondet_u8();
    uint64_t mtop = slot_base(mb) + IO + moff, mend = blk_end(&S, mb);
    ASSUME(mtop <= mend);
#if OP == OP_UNWIND
    if (mi == (uint64_t)S.ku - 1) ASSUME(mtop <= S.cur);
    w_marker_set(M1, mi, mtop, mend);
    ASSUME(wa >= SB);
    { int keep = 0;   /* witness: headers of all blocks, and bytes below the marker in blocks that stay */
      for (int j = 0; j < KU; ++j) if (j < S.ku) { uint64_t b = slot_base(S.U[j]);
          if (wa >= b && wa < b + 8 ) keep = keep;   /* prev links of moved blocks are re-pointed */
          if ((uint64_t)j <= mi && wa >= b + 8 && wa < ((uint64_t)j == mi ? mtop : blk_end(&S, S.U[j]))) keep = 1; }
      ASSUME(keep); }
    wv = H8(wa);
    w_ms_unwind(L, M1);
    struct st E = S;
    /* blocks above the marker's block move to the cache: the one directly above ends up on top of the cache */
    for (int j = S.ku - 1; j > (int)mi; --j) {
        for (int t = KC + KU - 1; t > 0; --t) E.C[t] = E.C[t - 1];
        E.C[0] = S.U[j]; E.kc++;
    }
    E.ku = (int)mi + 1; E.cur = mtop;
    check(L, &E, "");
    ASSERT(w_ms_capacity_left(L) == mend - mtop, "C06: capacity_left() after unwind is what it was at the marker");
    w_ms_top(L, M2);
    ASSERT(w_marker_eq(M1, M2) && w_marker_index(M2) == mi && w_marker_top(M2) == mtop && w_marker_end(M2) == mend, "C06: top() after unwind(m) equals m");
    ASSERT(H8(wa) == wv, "C06: everything allocated before the marker is untouched");
    ASSERT(n_up_dealloc == 0 && n_up_alloc == 0, "C06: blocks freed by unwinding are kept (cached), nothing goes upstream");
    ASSERT(n_invptr == 0, "C16: a valid unwind is never reported");
#if CFG_FILL
    if (mi == (uint64_t)S.ku - 1 && S.cur > mtop) { uint64_t j = nondet_u8(); ASSUME(mtop + j < S.cur); ASSERT(H8(mtop + j) == 0xDD, "C17: unwound bytes carry the freed pattern"); }
#endif
#else
    /* C16: marker above the current top: same block with top above cur, or a later block index */
    g_pre = S;
    uint64_t bad = nondet_u8();
    if (bad == 0) { ASSUME(mi == (uint64_t)S.ku - 1 && mtop > S.cur); w_marker_set(M1, mi, mtop, mend); }
    else { w_marker_set(M1, (uint64_t)S.ku - 1 + bad, mtop, mend); ASSUME(bad <= 2); }
    w_ms_unwind(L, M1);
    ASSERT(n_invptr >= 1, "C16: unwinding to a marker above the current top is reported (or the program stops)");
#endif
#elif OP == OP_SHRINK || OP == OP_DTOR
    establish(L, &S, &taken, 3);
    int n0 = outstanding();
#if OP == OP_SHRINK
    w_ms_shrink_to_fit(L);
    struct st E = S; E.kc = 0;
    check(L, &E, "");
    ASSERT(n_up_dealloc == S.kc && outstanding() == n0 - S.kc, "C05: shrink_to_fit returns exactly the cached blocks, each once (order and sizes checked by the hook)");
#else
    n_leak = 0;
    w_ms_dtor(L);
    ASSERT(outstanding() == 0 && n_up_dealloc == n0, "C05: destructor returns every block exactly once, in reverse order of acquisition (checked by the hook)");
#if CFG_LEAK
    ASSERT(n_leak == (S.leaked != 0), "C15: leak handler called exactly once iff the net count is non-zero");
    if (S.leaked != 0) ASSERT(leak_amount == S.leaked, "C15: leak handler receives the exact net amount");
#endif
#endif
    ASSERT(n_up_alloc == 0, "no upstream allocation");
#elif OP == OP_MOVE_CTOR
    establish(L, &S, &taken, 3);
    w_ms_move_ctor(L2, L);
    check(L2, &S, "");
    ASSERT(n_up_alloc == 0 && n_up_dealloc == 0, "C12: move construction causes no upstream traffic");
    STOP_IS_FAILURE = 1; n_leak = 0;
    w_ms_dtor(L);
    ASSERT(n_up_dealloc == 0 && n_leak == 0, "C12/C15: destroying the moved-from stack touches nothing and reports nothing");
    w_ms_dtor(L2);
    ASSERT(outstanding() == 0, "C05/C12: new owner returns every block exactly once");
#if CFG_LEAK
    ASSERT(n_leak == (S.leaked != 0), "C15: the count moved with the stack");
#endif
#elif OP == OP_MOVE_ASSIGN
    establish(L, &S, &taken, 3);
    establish(L2, &S2, &taken, 3);
    n_leak = 0;
    w_ms_move_assign(L2, L);
    check(L2, &S, "");
    /* the target's former blocks must all have been returned (reverse order within the target is checked by sequence numbers
       only among outstanding blocks of both objects, so the order check is relaxed here) */
    STOP_IS_FAILURE = 1;
    w_ms_dtor(L);
    w_ms_dtor(L2);
    ASSERT(outstanding() == 0, "C05/C12: after move assignment and destruction of both every block was returned exactly once");
#elif OP == OP_SCRIPT
    establish(L, &S, &taken, 3);
    for (fresh_slot = 0; fresh_slot < NS_ - 1 && (taken >> fresh_slot & 1); ++fresh_slot) ;
    ASSUME(!(taken >> fresh_slot & 1));
    fresh_addr[0] = slot_base(fresh_slot); n_fresh = 1;
    uint64_t s1 = nondet_u8(), s2 = nondet_u8(), k1 = nondet_u8(), k2 = nondet_u8();
    ASSUME(s1 <= SMAX && s2 <= SMAX && k1 <= 4 && k2 <= 4);
    uint64_t cap0 = w_ms_capacity_left(L);
    w_ms_top(L, M1);
    CLEAR_EXC();
    uint64_t p1 = w_ms_allocate(L, s1, UINT64_C(1) << k1);
    ASSUME(!EXC);
    w_ms_top(L, M3);
    ASSERT(w_marker_le(M1, M3), "C06: markers are ordered consistently with allocation order");
    uint64_t p2 = w_ms_allocate(L, s2, UINT64_C(1) << k2);
    ASSUME(!EXC);
    w_ms_top(L, M2);
    ASSERT(w_marker_le(M3, M2) && w_marker_le(M1, M2), "C06: later markers compare greater or equal");
    w_ms_unwind(L, M1);
    ASSERT(w_ms_capacity_left(L) == cap0, "C06: capacity_left() after unwind(m) is what it was when m was taken");
    ASSERT(w_ms_cur(L) == S.cur, "C06: top restored");
    w_ms_top(L, M2);
    ASSERT(w_marker_eq(M1, M2), "C06: top() == m after unwind(m)");
    /* replay: same requests, the upstream must not be needed, same addresses */
    up_alloc_forbidden = 1;
    uint64_t q1 = w_ms_allocate(L, s1, UINT64_C(1) << k1);
    uint64_t q2 = w_ms_allocate(L, s2, UINT64_C(1) << k2);
    ASSERT(!EXC && q1 == p1 && q2 == p2, "C06: the same request sequence after unwind yields the same addresses (block cache not purged)");
    ASSERT(n_up_dealloc == 0, "C06: unwinding keeps the blocks");
#elif OP == OP_MARKERS
    /* pure comparison operators over three markers of one stack (same block => same end) */
    uint64_t i1 = nondet_u8(), i2 = nondet_u8(), i3 = nondet_u8(), t1 = nondet_u64(), t2 = nondet_u64(), t3 = nondet_u64();
    uint64_t e1 = nondet_u64(), e2 = nondet_u64(), e3 = nondet_u64();
    ASSUME(i1 != i2 || e1 == e2); ASSUME(i2 != i3 || e2 == e3); ASSUME(i1 != i3 || e1 == e3);
    w_marker_set(M1, i1, t1, e1); w_marker_set(M2, i2, t2, e2); w_marker_set(M3, i3, t3, e3);
    int lt12 = (int)w_marker_lt(M1, M2), lt21 = (int)w_marker_lt(M2, M1), eq12 = (int)w_marker_eq(M1, M2);
    ASSERT(lt12 + lt21 + eq12 == 1, "C06: markers are totally ordered (trichotomy)");
    ASSERT(lt12 == (i1 < i2 || (i1 == i2 && t1 < t2)), "C06: marker order is (block index, top) lexicographic");
    if (lt12 && w_marker_lt(M2, M3)) ASSERT(w_marker_lt(M1, M3), "C06: marker order is transitive");
    ASSERT(w_marker_le(M1, M2) == (uint64_t)(lt12 || eq12), "C06: <= is < or ==");
#elif OP == OP_TRAITS
    establish(L, &S, &taken, 3);
    for (fresh_slot = 0; fresh_slot < NS_ - 1 && (taken >> fresh_slot & 1); ++fresh_slot) ;
    ASSUME(!(taken >> fresh_slot & 1));
    fresh_addr[0] = slot_base(fresh_slot); n_fresh = 1;
    uint64_t cnt = nondet_u8(), size = nondet_u8(); ASSUME(cnt >= 1 && cnt <= 3 && size <= 16);
    ASSERT(w_mst_max_node_size(L) == w_ms_next_capacity(L) && w_mst_max_array_size(L) == w_ms_next_capacity(L), "C18: max sizes are next_capacity()");
    CLEAR_EXC();
    uint64_t p = w_mst_allocate_array(L, cnt, size, 8);
    if (!EXC) {
        ASSERT(p != 0 && (p & 7) == 0, "C02: traits-level array allocation aligned and non-null");
        ASSERT(w_ms_leaked(L) == S.leaked + (int64_t)(cnt * size) || !CFG_LEAK, "C15: allocate_array counts count*size bytes");
        w_mst_deallocate_array(L, p, cnt, size, 8);
        ASSERT(w_ms_leaked(L) == S.leaked, "C15: the matching deallocate_array subtracts the same amount");
    } else {
        ASSERT(w_ms_leaked(L) == S.leaked, "C15: a failed allocation counts nothing");
    }
    { uint64_t big = w_ms_next_capacity(L) + 1 + nondet_u8(); CLEAR_EXC(); uint64_t q = w_mst_allocate_node(L, big, 1);
      ASSERT(EXC || q == 0, "C18: a request above max_node_size() never succeeds"); }
#else
#error "OP"
#endif
#if OP != 11
    WITNESS_END();
#endif
}
