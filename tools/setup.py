#!/usr/bin/env python3
"""setup after a fresh restore: check the tools exist, pre-build configurations and IR (offline, seconds)."""
import os, sys, shutil
sys.path.insert(0, os.path.dirname(os.path.abspath(__file__)))
import build
for t in ('cbmc', 'clang++-14', 'llvm-link-14', 'gcc', 'cmake'):
    if not shutil.which(t):
        print('missing tool', t); sys.exit(1)
for c in ('release', 'baseline'):
    build.build_repo_ir(c)
print('setup ok')
