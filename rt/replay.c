/* replay back end: feeds recorded nondet values to a natively built harness (DESIGN.md 1.3) */
#include <stdio.h>
#include <stdlib.h>
#include <string.h>
#include <stdint.h>
#include <signal.h>
#include <unistd.h>
#include "rt.h"
#ifdef VERIF_NATIVE
#include <sys/mman.h>
int verif_exc, verif_exc_kind;
int STOP_IS_FAILURE, STOPPED;
uint64_t ir_tid;                                   /* thread-local model: only meaningful in the model-only C14 schedule harness */
void ir_thread_exit(uint64_t t) { (void)t; }
#ifdef IR_HOOK_MMAP
/* the OS hooks of the harness stand in for the real calls in the native build too (linked with -Wl,--wrap=...) */
extern uint64_t verif_mmap(uint64_t len); extern uint32_t verif_munmap(uint64_t p, uint64_t len);
extern uint32_t verif_mprotect(uint64_t p, uint64_t len, uint32_t prot); extern uint64_t verif_page_size(void);
void* __wrap_mmap(void* a, size_t len, int prot, int flags, int fd, long off) { (void)a; (void)prot; (void)flags; (void)fd; (void)off; return (void*)(uintptr_t)verif_mmap(len); }
int __wrap_munmap(void* p, size_t len) { return (int)verif_munmap((uint64_t)(uintptr_t)p, len); }
int __wrap_mprotect(void* p, size_t len, int prot) { return (int)verif_mprotect((uint64_t)(uintptr_t)p, len, (uint32_t)prot); }
int __wrap_madvise(void* p, size_t len, int adv) { (void)p; (void)len; (void)adv; return 0; }
long __wrap_sysconf(int name) { (void)name; return (long)verif_page_size(); }
#endif
#ifdef IR_HOOK_MALLOC
extern uint64_t verif_os_alloc(uint64_t size, uint64_t alignment); extern void verif_os_free(uint64_t p, uint64_t size, uint64_t alignment);
void* __wrap_malloc(size_t n) { return (void*)(uintptr_t)verif_os_alloc(n, 16); }
void __wrap_free(void* p) { verif_os_free((uint64_t)(uintptr_t)p, 0, 0); }
#endif
#endif
static uint64_t vals[65536]; static char kinds[65536][12]; static int nvals, pos;
static unsigned char heap_img[1 << 16]; static int heap_len;
static int violations;
void harness(void);

uint64_t replay_next(const char* kind)
{
    /* values of nondet calls whose result was never used do not appear in the solver's trace: a recorded value is
       consumed only by a call of the same kind, an unmatched call gets 0 (its value cannot matter) */
    if (pos >= nvals) return 0;
    if (kinds[pos][0] && strcmp(kinds[pos], kind) != 0) return 0;
    return vals[pos++];
}
void replay_assert(int c, const char* msg)
{
    if (!c) { printf("ASSERTION-VIOLATED: %s\n", msg); fflush(stdout); violations++; exit(1); }
}
void replay_assume(int c, const char* what)
{
    if (!c) { printf("ASSUME-FAILED: %s\n", what); fflush(stdout); exit(77); }
}
void replay_load_heap(void)
{
#ifdef VERIF_NATIVE
    memcpy((void*)(uintptr_t)HEAP_BASE, heap_img, heap_len < HEAP_SIZE ? heap_len : HEAP_SIZE);
#else
    memcpy(HEAP, heap_img, heap_len < HEAP_SIZE ? heap_len : HEAP_SIZE);
#endif
}
static void on_abort(int s)
{
    (void)s;
    const char m[] = "STOPPED (signal)\n";
    write(1, m, sizeof m - 1);
#ifdef VERIF_NATIVE
    if (STOP_IS_FAILURE) { const char v[] = "ASSERTION-VIOLATED: program stopped (abort/terminate/trap) where it must not\n"; write(1, v, sizeof v - 1); _exit(1); }
#endif
    _exit(42);
}
int main(int argc, char** argv)
{
    if (argc < 2) { fprintf(stderr, "usage: %s replay.txt\n", argv[0]); return 2; }
    FILE* f = fopen(argv[1], "r");
    if (!f) { perror("replay file"); return 2; }
    char line[1 << 18];
    while (fgets(line, sizeof line, f)) {
        if (line[0] == 'N') {
            char k[32] = ""; unsigned long long v = 0;
            if (sscanf(line + 2, "%31s %llu", k, &v) == 2) { strncpy(kinds[nvals], k, 11); vals[nvals++] = v; }
            else { kinds[nvals][0] = 0; vals[nvals++] = strtoull(line + 2, 0, 10); }
        }
        else if (line[0] == 'H') {
            char* p = line + 2;
            while (*p && *p != '\n') { unsigned v; sscanf(p, "%2x", &v); heap_img[heap_len++] = (unsigned char)v; p += 2; }
        }
    }
    fclose(f);
#ifdef VERIF_NATIVE
#ifdef IR_HOOK_MMAP
    extern void* __real_mmap(void*, size_t, int, int, int, long);
#define mmap __real_mmap
#endif
    void* m = mmap((void*)(uintptr_t)HEAP_BASE, (HEAP_SIZE + 4095) & ~4095ul, PROT_READ | PROT_WRITE,
                   MAP_PRIVATE | MAP_ANONYMOUS | MAP_FIXED_NOREPLACE, -1, 0);
    if (m != (void*)(uintptr_t)HEAP_BASE) { perror("mmap HEAP_BASE"); return 2; }
    signal(SIGABRT, on_abort); signal(SIGSEGV, on_abort); signal(SIGILL, on_abort); signal(SIGTRAP, on_abort);
#endif
    harness();
    printf("REPLAY-COMPLETED no assertion violated\n");
    return 0;
}
