/* harness-side definitions shared by the allocator harnesses: recording upstream hooks, handler hooks */
#ifndef HOOKS_COMMON_H
#define HOOKS_COMMON_H
#include "verif.h"

/* ---- exception classification ---- */
#define XK_OOM 1     /* out_of_memory (including out_of_fixed_memory) */
#define XK_OOFM 2    /* out_of_fixed_memory */
#define XK_BADSIZE 3 /* bad_allocation_size family */
#define XK_BADALLOC 4
#if defined(VERIF_NATIVE)
#define CLEAR_EXC() (verif_exc = 0, verif_exc_kind = 0)
static int exc_is(int k)
{
    if (!verif_exc) return 0;
    if (k == XK_OOM) return verif_exc_kind == 1 || verif_exc_kind == 2;
    if (k == XK_OOFM) return verif_exc_kind == 2;
    if (k == XK_BADSIZE) return verif_exc_kind == 3;
    return verif_exc_kind >= 1 && verif_exc_kind <= 4;
}
#else
#define CLEAR_EXC() (EXC = 0, EXC_TYPE = 0)
static int exc_is(int k)
{
    if (!EXC) return 0;
#ifdef TI__ZTIN9foonathan6memory13out_of_memoryE
    if (k == XK_OOM) return ir_exc_isa(TI__ZTIN9foonathan6memory13out_of_memoryE);
#endif
#ifdef TI__ZTIN9foonathan6memory19out_of_fixed_memoryE
    if (k == XK_OOFM) return ir_exc_isa(TI__ZTIN9foonathan6memory19out_of_fixed_memoryE);
#endif
#ifdef TI__ZTIN9foonathan6memory19bad_allocation_sizeE
    if (k == XK_BADSIZE) return ir_exc_isa(TI__ZTIN9foonathan6memory19bad_allocation_sizeE);
#endif
    if (k == XK_BADALLOC) return 1;
    return 0;
}
#endif

/* ---- handler hooks: count and remember the arguments ---- */
static int n_oom, n_badsize, n_invptr, n_leak, n_overflow;
static uint64_t oom_amount, bad_passed, bad_supported, inv_ptr, ovf_mem, ovf_size, ovf_ptr;
static int64_t leak_amount;
void verif_oom_handler(uint64_t name, uint64_t alloc, uint64_t amount) { (void)name; (void)alloc; n_oom++; oom_amount = amount; }
void verif_bad_size_handler(uint64_t name, uint64_t alloc, uint64_t passed, uint64_t supported)
{ (void)name; (void)alloc; n_badsize++; bad_passed = passed; bad_supported = supported; }
#ifndef OWN_INVALID_POINTER_HOOK
void verif_invalid_pointer(uint64_t name, uint64_t alloc, uint64_t ptr)
{
    (void)name; (void)alloc; n_invptr++; inv_ptr = ptr;
#ifdef HANDLER_STOPS
#ifdef HANDLER_CHECK
    HANDLER_CHECK();             /* state snapshot comparison: reported before the allocator state changed */
#endif
#ifdef WITNESS
    ASSERT(0, "WITNESS: invalid-pointer handler reached");
#endif
    ASSUME(0);                   /* the handler ends the program */
#endif
}
#endif
#ifndef OWN_LEAK_HOOK
void verif_leak_handler(uint64_t name, uint64_t alloc, uint64_t amount) { (void)name; (void)alloc; n_leak++; leak_amount = (int64_t)amount; }
#endif
void verif_overflow_handler(uint64_t mem, uint64_t size, uint64_t ptr) { n_overflow++; ovf_mem = mem; ovf_size = size; ovf_ptr = ptr; }

/* ---- upstream ledger: blocks handed out by the block/raw hooks ---- */
#ifndef MAXB
#define MAXB 4
#endif
static uint64_t blk_addr[MAXB], blk_size[MAXB], blk_align[MAXB];
static int blk_out[MAXB];        /* 1 = handed out and not yet returned */
static int blk_returned[MAXB];   /* how many times returned */
static int blk_seq[MAXB];        /* acquisition sequence number */
static int n_blk, seq_ctr, n_up_alloc, n_up_dealloc, up_fail_allowed = 1, up_alloc_forbidden;
static uint64_t up_last_req;
/* the harness pre-registers blocks of a symbolic pre-state with this */
static void ledger_add(uint64_t addr, uint64_t size)
{
    blk_addr[n_blk] = addr; blk_size[n_blk] = size; blk_out[n_blk] = 1; blk_returned[n_blk] = 0; blk_seq[n_blk] = seq_ctr++; blk_align[n_blk] = 16;
    n_blk++;
}
/* where the next fresh block goes: set by the harness (concrete slot address) */
static uint64_t fresh_addr[MAXB]; static int n_fresh, fresh_used;
static uint64_t up_alloc(uint64_t size, uint64_t align)
{
    n_up_alloc++; up_last_req = size;
    ASSERT(!up_alloc_forbidden, "upstream allocation requested where none is allowed");
    if (up_fail_allowed && nondet_u8() != 0) return 0;          /* upstream failure at any call */
    ASSUME(fresh_used < n_fresh && n_blk < MAXB);              /* harness bound: number of fresh upstream blocks per query */
    uint64_t a = fresh_addr[fresh_used++];
    ASSUME(IN_HEAP(a, size));                                   /* bound: the block must fit the modelled heap */
    blk_addr[n_blk] = a; blk_size[n_blk] = size; blk_out[n_blk] = 1; blk_returned[n_blk] = 0; blk_seq[n_blk] = seq_ctr++; blk_align[n_blk] = align;
    n_blk++;
    return a;
}
static int order_violations, bad_returns;
static void up_dealloc(uint64_t ptr, uint64_t size, uint64_t align)
{
    n_up_dealloc++;
    int found = -1, maxseq = -1;
    for (int i = 0; i < MAXB; ++i) if (i < n_blk) {
        if (blk_out[i] && blk_seq[i] > maxseq) maxseq = blk_seq[i];
        if (blk_addr[i] == ptr && blk_out[i]) found = i;
    }
    ASSERT(found >= 0, "C05: block returned upstream is one that was handed out and not yet returned (no double / foreign release)");
    if (found < 0) { bad_returns++; return; }
    ASSERT(blk_size[found] == size, "C05: block returned upstream with the size it was handed out with");
    ASSERT(blk_align[found] == align || align == 0, "C05: block returned upstream with the alignment it was requested with");
#ifndef NO_ORDER_CHECK
    ASSERT(blk_seq[found] == maxseq, "C05: blocks are returned upstream in reverse order of acquisition");
#endif
    blk_out[found] = 0; blk_returned[found]++;
}
static int outstanding(void) { int c = 0; for (int i = 0; i < MAXB; ++i) if (i < n_blk && blk_out[i]) c++; return c; }

uint64_t verif_raw_alloc(uint64_t id, uint64_t size, uint64_t align) { (void)id; return up_alloc(size, align); }
void verif_raw_dealloc(uint64_t id, uint64_t p, uint64_t size, uint64_t align) { (void)id; up_dealloc(p, size, align); }
uint64_t verif_block_alloc(uint64_t id, uint64_t size) { (void)id; return up_alloc(size, 16); }
void verif_block_dealloc(uint64_t id, uint64_t p, uint64_t size) { (void)id; up_dealloc(p, size, 0); }
#endif
