#!/usr/bin/env python3
"""ir2c: LLVM-14 textual IR  ->  C over a flat integer-addressed memory.

usage: ir2c.py module.ll -o gen.c [--roots REGEX] [--meta meta.json] [--threads N]

Every pointer is a uint64_t.  Memory is four arrays (HEAP, STK, GLB, GLC) at fixed
disjoint address ranges (see rt.h); loads and stores go through ld*/st* helpers
that assert the access lies inside one region.  See DESIGN.md 1.1."""
import sys, re, json, struct, argparse, hashlib
sys.setrecursionlimit(10000)
from irparse import *

HEAP_BASE = 0x100000
STK_BASE  = 0x200000
GLB_BASE  = 0x300000
GLC_BASE  = 0x400000
FUNC_BASE = 0x500000
RH, RS, RG, RC = 1, 2, 4, 8
RALL = 15

class NotConst(Exception):
    pass

NOOP_EXTERNS = {'fprintf', 'fputs', 'fputc', 'fflush', 'fwrite', 'printf', 'puts', 'putchar', 'vfprintf',
                '__cxa_atexit', '__cxa_guard_release', '__cxa_guard_abort',
                '__cxa_free_exception', '__cxa_end_catch', '_ZNSt8ios_base4InitC1Ev', '_ZNSt8ios_base4InitD1Ev',
                '__cxa_call_unexpected'}
SKIP_INTRINSICS = ('llvm.lifetime.', 'llvm.dbg.', 'llvm.assume', 'llvm.experimental.noalias', 'llvm.invariant.',
                   'llvm.prefetch', 'llvm.donothing', 'llvm.var.annotation', 'llvm.sideeffect')

def san(name):
    return re.sub(r'[^A-Za-z0-9_]', '_', name)

class Emitter:
    def __init__(self, m, roots_re, nthreads=1):
        self.m = m
        self.nthreads = nthreads
        self.roots_re = re.compile(roots_re)
        self.aggnames = {}
        self.aggdefs = []
        self.gaddr = {}
        self.faddr = {}
        self.tls = {}
        self.warnings = []
        self.externs = {}
        self.ti_ids = {}
        self.out = []
        self.extra_roots = []
        self.ctor_funcs = []

    # ------------------------------------------------------------ types
    def resolve(self, t):
        while t[0] == 'named':
            if t[1] not in self.m.types: raise IRError('unknown named type ' + t[1])
            t = self.m.types[t[1]]
        return t

    def sizeof(self, t):
        t = self.resolve(t); k = t[0]
        if k == 'int': return {1:1, 8:1, 16:2, 32:4, 64:8, 128:16}.get(t[1]) or ((t[1] + 7) // 8 if t[1] <= 64 else 16)
        if k == 'ptr': return 8
        if k == 'fp': return {16:2, 32:4, 64:8, 80:16}[t[1]]
        if k == 'array': return t[1] * self.sizeof(t[2])
        if k == 'vec': return t[1] * self.sizeof(t[2])
        if k == 'struct':
            off = 0; al = 1
            for f in t[1]:
                a = 1 if t[2] else self.alignof(f)
                al = max(al, a); off = (off + a - 1) // a * a + self.sizeof(f)
            return (off + al - 1) // al * al
        if k == 'opaque': raise IRError('sizeof opaque')
        if k == 'func': return 1
        raise IRError('sizeof %r' % (t,))

    def alignof(self, t):
        t = self.resolve(t); k = t[0]
        if k == 'int':
            s = self.sizeof(t); p = 1
            while p < s: p *= 2
            return min(p, 16)
        if k == 'ptr': return 8
        if k == 'fp': return {16:2, 32:4, 64:8, 80:16}[t[1]]
        if k in ('array',): return self.alignof(t[2])
        if k == 'vec': return min(16, self.sizeof(t))
        if k == 'struct':
            if t[2]: return 1
            return max([self.alignof(f) for f in t[1]] or [1])
        return 1

    def field_off(self, t, i):
        t = self.resolve(t)
        off = 0
        for j, f in enumerate(t[1]):
            a = 1 if t[2] else self.alignof(f)
            off = (off + a - 1) // a * a
            if j == i: return off
            off += self.sizeof(f)
        raise IRError('field index')

    def ctype(self, t):
        t = self.resolve(t); k = t[0]
        if k == 'int':
            n = t[1]
            if n <= 8: return 'uint8_t'
            if n <= 16: return 'uint16_t'
            if n <= 32: return 'uint32_t'
            if n <= 64: return 'uint64_t'
            if n <= 128: return 'u128'
            raise IRError('int width %d' % n)
        if k == 'ptr': return 'uint64_t'
        if k == 'fp':
            if t[1] == 32: return 'float'
            if t[1] == 64: return 'double'
            raise IRError('fp width')
        if k == 'void': return 'void'
        if k in ('struct', 'array'):
            key = self.canon(t)
            if key not in self.aggnames:
                nm = 'struct A%d' % len(self.aggnames)
                self.aggnames[key] = nm
                if k == 'struct':
                    fs = ''.join(' %s f%d;' % (self.ctype(f), i) for i, f in enumerate(t[1]))
                else:
                    fs = ''.join(' %s f%d;' % (self.ctype(t[2]), i) for i in range(t[1]))
                if not fs: fs = ' char dummy;'
                self.aggdefs.append('%s {%s };' % (nm, fs))
            return self.aggnames[key]
        raise IRError('ctype of %r' % (t,))

    def canon(self, t):
        t = self.resolve(t)
        if t[0] == 'struct': return 'S(' + ','.join(self.canon(f) for f in t[1]) + ')'
        if t[0] == 'array': return 'A%d(%s)' % (t[1], self.canon(t[2]))
        if t[0] == 'ptr': return 'p'
        return repr(t)

    def isagg(self, t):
        return self.resolve(t)[0] in ('struct', 'array')

    def bits(self, t):
        t = self.resolve(t)
        if t[0] == 'int': return t[1]
        if t[0] == 'ptr': return 64
        raise IRError('bits of %r' % (t,))

    # ------------------------------------------------------------ reachability & layout
    def resolve_alias(self, name):
        seen = 0
        while name in self.m.aliases:
            v = self.m.aliases[name]
            while v[0] == 'ccast': v = v[3]
            if v[0] != 'global': raise IRError('alias target')
            name = v[1]; seen += 1
            if seen > 10: raise IRError('alias loop')
        return name

    def val_refs(self, v, acc):
        if not isinstance(v, tuple): return
        if v and v[0] == 'global':
            acc.add(self.resolve_alias(v[1])); return
        for x in v:
            if isinstance(x, tuple): self.val_refs(x, acc)
            elif isinstance(x, list):
                for y in x: self.val_refs(y if isinstance(y, tuple) else (), acc)

    def instr_refs(self, I, acc, taken=None):
        for k, v in I.items():
            if k in ('src', 'op', 'dst'): continue
            if taken is not None and not (k == 'callee' and I['op'] in ('call', 'invoke')):
                if isinstance(v, tuple): self.val_refs(v, taken)
                elif isinstance(v, list):
                    for y in v:
                        if isinstance(y, tuple): self.val_refs(y, taken)
            if isinstance(v, tuple): self.val_refs(v, acc)
            elif isinstance(v, list):
                for y in v:
                    if isinstance(y, tuple): self.val_refs(y, acc)

    def reach(self):
        m = self.m
        work = [n for n, f in m.funcs.items() if f.blocks is not None and self.roots_re.search(n)]
        if not work: raise IRError('no root functions match')
        self.roots = list(work)
        work += list(self.extra_roots)
        seenf = set(); seeng = set(); self.addr_taken = set()
        while work:
            n = work.pop()
            n = self.resolve_alias(n)
            if n in m.funcs:
                if n in seenf: continue
                seenf.add(n)
                f = m.funcs[n]
                if f.blocks is None: continue
                acc = set()
                for _, ins in f.blocks:
                    for I in ins: self.instr_refs(I, acc, self.addr_taken)
                work.extend(acc)
            elif n in m.globals:
                if n in seeng: continue
                seeng.add(n)
                g = m.globals[n]
                if g.init is not None:
                    acc = set(); self.val_refs(g.init, acc); work.extend(acc); self.addr_taken |= acc
            else:
                raise IRError('reference to unknown symbol @' + n)
        self.rfuncs = sorted(seenf); self.rglobals = sorted(seeng)
        return seenf, seeng

    def select_ctors(self):
        """static initialisers (llvm.global_ctors) that initialise a reachable global; they become roots"""
        m = self.m
        gc = m.globals.get('llvm.global_ctors')
        self.ctor_funcs = []
        if gc is None or gc.init is None or gc.init[0] != 'agg': return False
        changed = False
        for et, ev in gc.init[1]:
            fn = set(); self.val_refs(ev[1][1][1], fn)
            data = set(); self.val_refs(ev[1][2][1], data)
            if not fn: continue
            (f,) = fn
            want = False
            if data:
                want = bool(data & set(self.rglobals))
            else:
                refs = set()
                fo = m.funcs.get(f)
                todo = [fo] if fo is not None and fo.blocks is not None else []
                seen = set()
                while todo:
                    x = todo.pop()
                    if x.name in seen: continue
                    seen.add(x.name)
                    acc = set()
                    for _, ins in x.blocks:
                        for I in ins: self.instr_refs(I, acc)
                    refs |= acc
                    for a in acc:
                        y = m.funcs.get(a)
                        if y is not None and y.blocks is not None and a.startswith('__cxx_global_var_init'): todo.append(y)
                refs = {r for r in refs if r in m.globals and not m.globals[r].const and r not in ('_ZStL8__ioinit', '__dso_handle')}
                want = bool(refs & set(self.rglobals))
            if want:
                self.ctor_funcs.append(f)
                if f not in self.extra_roots: self.extra_roots.append(f); changed = True
        return changed

    def layout(self):
        m = self.m
        offG = 0; offC = 0; offT = 0
        self.ginfo = {}
        for n in self.rglobals:
            g = m.globals[n]
            if g.external:
                # external data (typeinfo vtables of libstdc++, __libc_single_threaded, stderr ...): give an address in GLC/GLB
                sz = 16 if g.ty[0] in ('opaque',) or self.resolve(g.ty)[0] == 'opaque' else max(1, self.sizeof(g.ty))
                al = 8
            else:
                sz = max(1, self.sizeof(g.ty)); al = max(g.align or 1, self.alignof(g.ty))
            if g.tls:
                offT = (offT + al - 1) // al * al
                self.tls[n] = offT; self.ginfo[n] = ('T', offT, sz); offT += sz
            elif g.const and not g.external:
                offC = (offC + al - 1) // al * al
                self.gaddr[n] = GLC_BASE + offC; self.ginfo[n] = ('C', offC, sz); offC += sz
            else:
                offG = (offG + al - 1) // al * al
                self.gaddr[n] = GLB_BASE + offG; self.ginfo[n] = ('G', offG, sz); offG += sz
        offG = (offG + 15) // 16 * 16
        self.tls_base = GLB_BASE + offG
        self.tls_stride = (offT + 15) // 16 * 16
        self.glb_size = offG + self.tls_stride * self.nthreads
        self.glc_size = offC
        i = 0
        for n in self.rfuncs:
            self.faddr[n] = FUNC_BASE + 16 * i; i += 1

    # ------------------------------------------------------------ constants
    def const_int(self, ty, v):
        """evaluate constant to python int (two's complement in the type's width)"""
        k = v[0]
        if k == 'int':
            t = self.resolve(ty)
            w = 64 if t[0] == 'ptr' else t[1]
            return v[1] & ((1 << w) - 1)
        if k in ('undef', 'zero'): return 0
        if k == 'global':
            n = self.resolve_alias(v[1])
            if n in self.tls: raise NotConst()
            if n in self.gaddr: return self.gaddr[n]
            if n in self.faddr: return self.faddr[n]
            raise IRError('address of unlaid symbol ' + n)
        if k == 'local': raise NotConst()
        if k == 'ccast':
            _, op, st, sv, dt = v
            x = self.const_int(st, sv)
            if op in ('bitcast', 'ptrtoint', 'inttoptr', 'trunc', 'zext', 'addrspacecast'):
                return x & ((1 << self.bits(dt)) - 1)
            if op == 'sext':
                sb = self.bits(st)
                if x >> (sb - 1): x -= 1 << sb
                return x & ((1 << self.bits(dt)) - 1)
            raise IRError('const cast ' + op)
        if k == 'cgep':
            _, sty, base, idx = v
            a = self.const_int(('ptr', sty), base)
            return (a + self.gep_const_off(sty, idx)) & (2**64 - 1)
        if k == 'cbin':
            _, op, t, a, b = v
            x = self.const_int(t, a); y = self.const_int(t, b); w = self.bits(t); M = (1 << w) - 1
            if op == 'add': return (x + y) & M
            if op == 'sub': return (x - y) & M
            if op == 'mul': return (x * y) & M
            if op == 'and': return x & y
            if op == 'or': return x | y
            if op == 'xor': return x ^ y
            if op == 'shl': return (x << y) & M
            if op == 'lshr': return x >> y
            raise IRError('const binop ' + op)
        if k == 'cicmp':
            _, pred, t, a, b = v
            x = self.const_int(t, a); y = self.const_int(t, b)
            return int({'eq': x == y, 'ne': x != y, 'ult': x < y, 'ule': x <= y, 'ugt': x > y, 'uge': x >= y}[pred])
        if k == 'cselect':
            _, c, t, a, b = v
            return self.const_int(t, a) if self.const_int(('int', 1), c) else self.const_int(t, b)
        raise IRError('const_int of %r' % (v,))

    def gep_const_off(self, sty, idx):
        off = 0; t = sty
        for n, (it, iv) in enumerate(idx):
            i = self.const_int(it, iv)
            b = self.bits(it)
            if i >> (b - 1): i -= 1 << b
            if n == 0:
                off += i * self.sizeof(t)
            else:
                rt = self.resolve(t)
                if rt[0] == 'struct':
                    off += self.field_off(rt, i); t = rt[1][i]
                elif rt[0] in ('array', 'vec'):
                    off += i * self.sizeof(rt[2]); t = rt[2]
                else: raise IRError('gep into %r' % (rt,))
        return off

    def init_bytes(self, ty, v):
        t = self.resolve(ty); sz = self.sizeof(t)
        k = v[0]
        if k in ('zero', 'undef'): return bytes(sz)
        if k == 'cstr':
            return v[1] + bytes(sz - len(v[1]))
        if t[0] in ('int', 'ptr'):
            return self.const_int(t, v).to_bytes(sz, 'little')
        if t[0] == 'fp':
            x = self.fconst(t, v)
            return struct.pack('<f' if t[1] == 32 else '<d', x)
        if t[0] == 'struct':
            out = bytearray(sz)
            for i, (et, ev) in enumerate(v[1]):
                o = self.field_off(t, i); b = self.init_bytes(et, ev); out[o:o+len(b)] = b
            return bytes(out)
        if t[0] in ('array', 'vec'):
            out = bytearray();
            for et, ev in v[1]: out += self.init_bytes(et, ev)
            return bytes(out) + bytes(sz - len(out))
        raise IRError('init_bytes %r' % (t,))

    def fconst(self, t, v):
        if v[0] == 'float': return v[1]
        if v[0] == 'int': return float(v[1])
        if v[0] == 'hexfloat':
            h = v[1][2:]
            if h[0] in 'KLMHR': raise IRError('long double constant')
            return struct.unpack('<d', int(h, 16).to_bytes(8, 'little'))[0]
        if v[0] in ('zero', 'undef'): return 0.0
        raise IRError('fconst %r' % (v,))

    # ------------------------------------------------------------ expressions
    def lit(self, ty, x):
        ct = self.ctype(ty)
        if ct == 'u128':
            return '((((u128)UINT64_C(%d)) << 64) | (u128)UINT64_C(%d))' % (x >> 64, x & (2**64 - 1))
        return '((%s)UINT64_C(%d))' % (ct, x)

    def ex(self, ty, v, fn=None):
        """C expression for operand v of type ty inside function context fn"""
        t = self.resolve(ty)
        if v[0] == 'local':
            return fn.var(v[1])
        if t[0] == 'fp':
            x = self.fconst(t, v)
            if x != x or x in (float('inf'), float('-inf')): raise IRError('nan/inf constant')
            return '((%s)%s)' % (self.ctype(t), repr(x))
        if t[0] in ('struct', 'array'):
            ct = self.ctype(t)
            if v[0] in ('zero', 'undef'):
                return '((%s){0})' % ct
            if v[0] == 'agg':
                return '((%s){%s})' % (ct, ', '.join(self.ex(et, ev, fn) for et, ev in v[1]))
            raise IRError('aggregate operand %r' % (v,))
        try:
            return self.lit(t, self.const_int(t, v))
        except NotConst:
            pass
        # non-constant constant expression: TLS address
        if v[0] == 'global':
            n = self.resolve_alias(v[1])
            return '(TLS_BASE + ir_tid * TLS_STRIDE + UINT64_C(%d))' % self.tls[n]
        if v[0] == 'ccast':
            return '((%s)%s)' % (self.ctype(v[4]), self.ex(v[2], v[3], fn))
        if v[0] == 'cgep':
            return '(%s + UINT64_C(%d))' % (self.ex(('ptr', v[1]), v[2], fn), self.gep_const_off(v[1], v[3]) & (2**64-1))
        raise IRError('cannot emit operand %r' % (v,))

    # ------------------------------------------------------------ emit module
    def emit(self):
        self.reach()
        for _ in range(8):
            if not self.select_ctors(): break
            self.reach()
        self.select_ctors()
        self.layout()
        m = self.m
        # typeinfo ids
        for n in self.rglobals:
            if n.startswith('_ZTI'):
                self.ti_ids[n] = len(self.ti_ids) + 1
        bodies = []
        protos = []
        self.meta_funcs = []
        for n in self.rfuncs:
            f = m.funcs[n]
            if f.blocks is None:
                continue
            fe = FuncEmitter(self, f)
            bodies.append(fe.emit())
            protos.append(fe.proto() + ';')
            self.meta_funcs.append(n)
        h = ['/* generated by ir2c.py -- do not edit */', '#ifndef IR2C_GEN_H', '#define IR2C_GEN_H', '#include <stdint.h>']
        h.append('#define GLB_SIZE %d' % ((max(16, self.glb_size) + 7) // 8 * 8))
        h.append('#define GLC_SIZE %d' % ((max(16, self.glc_size) + 7) // 8 * 8))
        h.append('#define TLS_BASE UINT64_C(%d)' % self.tls_base)
        h.append('#define TLS_STRIDE UINT64_C(%d)' % self.tls_stride)
        for n, i in self.ti_ids.items():
            h.append('#define TI_%s %d' % (san(n), i))
        h.append('typedef unsigned __int128 u128;')
        h += self.aggdefs
        for n in self.rfuncs:
            f = m.funcs[n]
            if f.blocks is not None and self.roots_re.search(n):
                h.append(FuncEmitter(self, f).proto() + ';')
        for n, (proto, _) in sorted(self.externs.items()):
            if n.startswith('verif_'): h.append(proto)
        h.append('#endif')
        self.header_text = '\n'.join(h) + '\n'
        o = []
        o.append('/* generated by ir2c.py -- do not edit */')
        o.append('#include "gen.h"')
        o.append('#include "rt.h"')
        glb = bytearray((max(16, self.glb_size) + 7) // 8 * 8); glc = bytearray((max(16, self.glc_size) + 7) // 8 * 8)
        for n in self.rglobals:
            g = m.globals[n]; kind, off, sz = self.ginfo[n]
            b = bytes(sz) if g.init is None else self.init_bytes(g.ty, g.init)
            if kind == 'C': glc[off:off+len(b)] = b
            elif kind == 'G': glb[off:off+len(b)] = b
            else:
                for tdx in range(self.nthreads):
                    o2 = self.tls_base - GLB_BASE + tdx * self.tls_stride + off
                    glb[o2:o2+len(b)] = b
        def words(b):
            return ','.join('UINT64_C(%d)' % int.from_bytes(b[i:i+8], 'little') for i in range(0, len(b), 8))
        o.append('uint64_t GLB[GLB_SIZE / 8] = {%s};' % words(glb))
        o.append('const uint64_t GLC[GLC_SIZE / 8] = {%s};' % words(glc))
        o.append('const uint64_t ir_glb_size = GLB_SIZE, ir_glc_size = GLC_SIZE;')
        par = [0] * (len(self.ti_ids) + 1)
        for n, i in self.ti_ids.items():
            g = m.globals[n]
            if g.init is not None and g.init[0] == 'agg' and len(g.init[1]) >= 3:
                acc = set(); self.val_refs(g.init[1][2][1], acc)
                for a in acc:
                    if a in self.ti_ids: par[i] = self.ti_ids[a]
        o.append('const int ir_ti_parent[] = {%s};' % ','.join(map(str, par)))
        o.append('int ir_ti_id(uint64_t a) {')
        for n, i in self.ti_ids.items():
            o.append('  if (a == UINT64_C(%d)) return %d;' % (self.gaddr[n], i))
        o.append('  return -2;\n}')
        for n, (proto, _) in sorted(self.externs.items()):
            if not n.startswith('verif_'): o.append(proto)
        o += protos
        o += bodies
        # dispatcher for destructors registered with __cxa_thread_atexit: void f(void*)
        o.append('void ir_call_vp(uint64_t fn, uint64_t arg) {')
        o.append('  switch (fn) {')
        for n in self.rfuncs:
            f = m.funcs[n]
            if f.blocks is None or f.vararg or n not in self.addr_taken: continue
            if self.resolve(f.ret)[0] == 'void' and len(f.params) == 1 and self.ctype(f.params[0][0]) == 'uint64_t':
                o.append('    case UINT64_C(%d): %s(arg); break;' % (self.faddr[n], self.cname(n)))
        o.append('    default: IR_CHECK(0, "ir_call_vp: unknown function address");')
        o.append('  }')
        o.append('}')
        o.append('void ir_global_ctors(void) {')
        for f in self.ctor_funcs:
            o.append('  %s();' % self.cname(f))
        o.append('}')
        return '\n'.join(o) + '\n'

    def taken(self):
        return self.addr_taken

    def cname(self, n):
        if self.roots_re.search(n) or n.startswith('verif_'): return san(n)
        f = self.m.funcs.get(n)
        if f is not None and f.blocks is None: return 'X_' + san(n)
        return 'F_' + san(n)


class FuncEmitter:
    def __init__(self, E, f):
        self.E = E; self.f = f
        self.names = {}; self.used = set()
        self.types = {}
        self.lines = []
        self.prov = {}
        for t, pn, a in f.params:
            self.types[pn] = t
        for lb, ins in f.blocks:
            for I in ins:
                if I['dst'] is not None:
                    self.types[I['dst']] = self.result_type(I)

    def var(self, n):
        if n not in self.names:
            c = 'v' + san(n) if n[0].isdigit() else 'v_' + san(n)
            while c in self.used: c += '_'
            self.used.add(c); self.names[n] = c
        return self.names[n]

    def result_type(self, I):
        op = I['op']; E = self.E
        if op in BIN_OPS or op in ('select', 'freeze', 'phi', 'load', 'atomicrmw', 'insertvalue', 'landingpad', 'fneg'): return I['ty']
        if op in ('icmp', 'fcmp'): return ('int', 1)
        if op in CAST_OPS: return I['dty']
        if op in ('alloca', 'getelementptr'): return ('ptr', ('int', 8))
        if op in ('call', 'invoke'): return I['rty']
        if op == 'cmpxchg': return ('struct', (I['ty'], ('int', 1)), False)
        if op == 'extractvalue':
            t = I['ty']
            for i in I['idx']:
                rt = E.resolve(t)
                t = rt[1][i] if rt[0] == 'struct' else rt[2]
            return t
        raise IRError('result type of ' + I['src'])

    def proto(self):
        E = self.E; f = self.f
        ps = ', '.join('%s %s' % (E.ctype(t), self.var(pn)) for t, pn, a in f.params) or 'void'
        if f.vararg: raise IRError('vararg definition ' + f.name)
        return '%s %s(%s)' % (E.ctype(f.ret), E.cname(f.name), ps)

    def ex(self, ty, v):
        return self.E.ex(ty, v, self)

    def w(self, s):
        self.lines.append('  ' + s)

    # provenance of pointer values: bit set of regions
    def compute_prov(self):
        E = self.E; prov = {}
        def pv(v):
            if v[0] == 'local': return prov.get(v[1], 0)
            if v[0] == 'global':
                n = E.resolve_alias(v[1])
                if n in E.tls: return RG
                if n in E.ginfo: return RC if E.ginfo[n][0] == 'C' else RG
                return RALL
            if v[0] == 'cgep': return pv(v[2])
            if v[0] == 'ccast' and v[1] == 'bitcast': return pv(v[3])
            if v[0] in ('undef', 'zero'): return 0
            if v[0] == 'int': return 0 if v[1] == 0 else RALL
            return RALL
        for t, pn, a in self.f.params: prov[pn] = RALL
        changed = True; rounds = 0
        while changed and rounds < 20:
            changed = False; rounds += 1
            for lb, ins in self.f.blocks:
                for I in ins:
                    d = I['dst']
                    if d is None: continue
                    op = I['op']
                    if op == 'alloca': p = RS
                    elif op == 'getelementptr': p = pv(I['base'])
                    elif op == 'bitcast': p = pv(I['a'])
                    elif op == 'phi':
                        p = 0
                        for v, _ in I['inc']: p |= pv(v)
                    elif op == 'select': p = pv(I['a']) | pv(I['b'])
                    elif op == 'freeze': p = pv(I['a'])
                    else: p = RALL
                    if prov.get(d, 0) != p | prov.get(d, 0):
                        prov[d] = p | prov.get(d, 0); changed = True
        self.prov = prov; self.pv = pv

    def mask(self, ptr):
        m = self.pv(ptr)
        return m if m else RALL

    def zero(self, t):
        E = self.E
        if E.resolve(t)[0] == 'void': return ''
        if E.isagg(t): return '((%s){0})' % E.ctype(t)
        return '0'

    def ret_stmt(self, val=None):
        if self.E.resolve(self.f.ret)[0] == 'void': return '{ SP = SP0; return; }'
        return '{ SP = SP0; return %s; }' % (val if val is not None else self.zero(self.f.ret))

    def emit(self):
        E = self.E; f = self.f
        self.compute_prov()
        self.phis = {}
        for lb, ins in f.blocks:
            self.phis[lb] = [I for I in ins if I['op'] == 'phi']
        body = []
        self.lines = body
        for lb, ins in f.blocks:
            body.append(' L_%s: ;' % san(lb))
            self.cur = lb
            for I in ins:
                if I['op'] == 'phi': continue
                try:
                    self.instr(I)
                except IRError as e:
                    raise IRError('%s\n  in function %s: %s' % (e, f.name, I['src']))
        decl = []
        pset = set(pn for _, pn, _ in f.params)
        for n, t in self.types.items():
            if n in pset or E.resolve(t)[0] == 'void': continue
            decl.append('  %s %s;' % (E.ctype(t), self.var(n)))
        for n in sorted(getattr(self, 'tmps', {})):
            decl.append('  %s %s;' % (self.tmps[n], n))
        head = ['%s {' % self.proto(), '  uint64_t SP0 = SP;'] + decl
        return '\n'.join(head + body + ['}'])

    def goto(self, target):
        """parallel phi copies on edge cur->target, then goto"""
        ph = self.phis[target]
        if not ph:
            return 'goto L_%s;' % san(target)
        if not hasattr(self, 'tmps'): self.tmps = {}
        s = '{ '
        moves = []
        for I in ph:
            src = None
            for v, lb in I['inc']:
                if lb == self.cur: src = v; break
            if src is None: raise IRError('phi without incoming for block ' + self.cur)
            moves.append((I, src))
        if len(moves) == 1:
            I, src = moves[0]
            s += '%s = %s; ' % (self.var(I['dst']), self.ex(I['ty'], src))
        else:
            for k, (I, src) in enumerate(moves):
                tn = 'phi_t%d_%s' % (k, san(E_ctype_key(self.E.ctype(I['ty']))))
                self.tmps[tn] = self.E.ctype(I['ty'])
                s += '%s = %s; ' % (tn, self.ex(I['ty'], src))
            for k, (I, src) in enumerate(moves):
                tn = 'phi_t%d_%s' % (k, san(E_ctype_key(self.E.ctype(I['ty']))))
                s += '%s = %s; ' % (self.var(I['dst']), tn)
        return s + 'goto L_%s; }' % san(target)

    def sx(self, t, e):
        """signed view of expression e of int type t as int64 (or i128)"""
        n = self.E.bits(t)
        if n == 64: return '((int64_t)%s)' % e
        if n == 32: return '((int64_t)(int32_t)%s)' % e
        if n == 16: return '((int64_t)(int16_t)%s)' % e
        if n == 8: return '((int64_t)(int8_t)%s)' % e
        if n == 128: return '((i128)%s)' % e
        if n < 64: return '(((int64_t)((uint64_t)%s << %d)) >> %d)' % (e, 64 - n, 64 - n)
        raise IRError('sx width %d' % n)

    def norm(self, t, e):
        """truncate expression (computed in uint64/u128) to the type"""
        n = self.E.bits(t); ct = self.E.ctype(t)
        if n in (8, 16, 32, 64, 128): return '((%s)(%s))' % (ct, e)
        return '((%s)((%s) & UINT64_C(%d)))' % (ct, e, (1 << n) - 1)

    def instr(self, I):
        E = self.E; op = I['op']; d = self.var(I['dst']) if I['dst'] is not None else None
        w = self.w
        if op in BIN_OPS:
            t = E.resolve(I['ty'])
            a = self.ex(t, I['a']); b = self.ex(t, I['b'])
            if t[0] == 'fp':
                c = {'fadd': '+', 'fsub': '-', 'fmul': '*', 'fdiv': '/'}.get(op)
                if not c: raise IRError('frem')
                w('%s = %s %s %s;' % (d, a, c, b)); return
            if t[0] != 'int': raise IRError('binop on %r' % (t,))
            n = t[1]; W = 'u128' if n > 64 else 'uint64_t'
            A = '(%s)%s' % (W, a); B = '(%s)%s' % (W, b)
            if op in ('add', 'sub', 'mul', 'and', 'or', 'xor'):
                c = {'add': '+', 'sub': '-', 'mul': '*', 'and': '&', 'or': '|', 'xor': '^'}[op]
                w('%s = %s;' % (d, self.norm(t, '%s %s %s' % (A, c, B))))
            elif op == 'shl':
                w('%s = %s;' % (d, self.norm(t, '(%s < %d) ? (%s << %s) : 0' % (B, n, A, B))))
            elif op == 'lshr':
                w('%s = %s;' % (d, self.norm(t, '(%s < %d) ? (%s >> %s) : 0' % (B, n, A, B))))
            elif op == 'ashr':
                w('%s = %s;' % (d, self.norm(t, '(%s)(%s >> ((%s < %d) ? %s : %d))' % (W, self.sx(t, a), B, n, B, n - 1))))
            elif op in ('udiv', 'urem'):
                w('IR_CHECK(%s != 0, "division by zero");' % b)
                w('%s = %s;' % (d, self.norm(t, '%s %s %s' % (A, '/' if op == 'udiv' else '%', B))))
            elif op in ('sdiv', 'srem'):
                w('IR_CHECK(%s != 0, "division by zero");' % b)
                w('%s = %s;' % (d, self.norm(t, '(%s)(%s %s %s)' % (W, self.sx(t, a), '/' if op == 'sdiv' else '%', self.sx(t, b)))))
            else: raise IRError('binop ' + op)
        elif op == 'fneg':
            w('%s = -%s;' % (d, self.ex(I['ty'], I['a'])))
        elif op == 'icmp':
            t = E.resolve(I['ty']); a = self.ex(t, I['a']); b = self.ex(t, I['b']); p = I['pred']
            if t[0] not in ('int', 'ptr'): raise IRError('icmp on %r' % (t,))
            if p in ('eq', 'ne', 'ugt', 'uge', 'ult', 'ule'):
                c = {'eq': '==', 'ne': '!=', 'ugt': '>', 'uge': '>=', 'ult': '<', 'ule': '<='}[p]
                w('%s = (%s %s %s);' % (d, a, c, b))
            else:
                c = {'sgt': '>', 'sge': '>=', 'slt': '<', 'sle': '<='}[p]
                w('%s = (%s %s %s);' % (d, self.sx(t, a), c, self.sx(t, b)))
        elif op == 'fcmp':
            t = I['ty']; a = self.ex(t, I['a']); b = self.ex(t, I['b']); p = I['pred']
            c = {'oeq': '==', 'ogt': '>', 'oge': '>=', 'olt': '<', 'ole': '<=', 'one': '!=',
                 'ueq': '==', 'ugt': '>', 'uge': '>=', 'ult': '<', 'ule': '<=', 'une': '!='}.get(p)
            if c is None: raise IRError('fcmp ' + p)
            if p[0] == 'u' : w('%s = ((%s != %s) || (%s != %s) || (%s %s %s));' % (d, a, a, b, b, a, c, b))
            else: w('%s = (%s %s %s);' % (d, a, c, b))
        elif op in CAST_OPS:
            st = E.resolve(I['ty']); dt = E.resolve(I['dty']); a = self.ex(st, I['a'])
            if op in ('bitcast', 'addrspacecast'):
                if E.ctype(st) != E.ctype(dt): raise IRError('bitcast between different representations')
                w('%s = %s;' % (d, a))
            elif op in ('ptrtoint', 'inttoptr', 'trunc', 'zext'):
                w('%s = %s;' % (d, self.norm(dt, '(%s)%s' % ('u128' if E.bits(dt) > 64 else 'uint64_t', a))))
            elif op == 'sext':
                w('%s = %s;' % (d, self.norm(dt, '(%s)%s' % ('u128' if E.bits(dt) > 64 else 'uint64_t', self.sx(st, a)))))
            elif op == 'uitofp': w('%s = (%s)%s;' % (d, E.ctype(dt), a))
            elif op == 'sitofp': w('%s = (%s)%s;' % (d, E.ctype(dt), self.sx(st, a)))
            elif op == 'fptoui': w('%s = %s;' % (d, self.norm(dt, '(uint64_t)%s' % a)))
            elif op == 'fptosi': w('%s = %s;' % (d, self.norm(dt, '(uint64_t)(int64_t)%s' % a)))
            elif op in ('fpext', 'fptrunc'): w('%s = (%s)%s;' % (d, E.ctype(dt), a))
            else: raise IRError('cast ' + op)
        elif op == 'select':
            w('%s = %s ? %s : %s;' % (d, self.ex(I['cty'], I['c']), self.ex(I['ty'], I['a']), self.ex(I['ty'], I['b'])))
        elif op == 'freeze':
            w('%s = %s;' % (d, self.ex(I['ty'], I['a'])))
        elif op == 'alloca':
            sz = E.sizeof(I['ty']); al = I['align'] or E.alignof(I['ty'])
            if I['n'] is not None:
                w('%s = ir_alloca((uint64_t)%s * UINT64_C(%d), %d);' % (d, self.ex(*I['n']), sz, al))
            else:
                w('%s = ir_alloca(UINT64_C(%d), %d);' % (d, sz, al))
        elif op == 'load':
            self.check_order(I)
            e = self.load(I['ty'], self.ex(('ptr', I['ty']), I['ptr']), self.mask(I['ptr']), I['atomic'])
            w('%s = %s;' % (d, e))
        elif op == 'store':
            self.check_order(I)
            self.store(I['ty'], self.ex(('ptr', I['ty']), I['ptr']), self.ex(I['ty'], I['val']), self.mask(I['ptr']), I['atomic'])
        elif op == 'fence':
            w('ir_fence();')
        elif op == 'cmpxchg':
            self.check_order(I)
            t = I['ty']; p = self.ex(('ptr', t), I['ptr']); m = self.mask(I['ptr'])
            w('ir_atomic_begin();')
            w('%s.f0 = %s;' % (d, self.load(t, p, m, False)))
            w('%s.f1 = (%s.f0 == %s);' % (d, d, self.ex(t, I['cmp'])))
            w('if (%s.f1) {' % d)
            self.store(t, p, self.ex(t, I['new']), m, False)
            w('}')
            w('ir_atomic_end();')
        elif op == 'atomicrmw':
            self.check_order(I)
            t = I['ty']; p = self.ex(('ptr', t), I['ptr']); m = self.mask(I['ptr']); v = self.ex(t, I['val'])
            c = {'add': '+', 'sub': '-', 'and': '&', 'or': '|', 'xor': '^'}.get(I['rop'])
            w('ir_atomic_begin();')
            w('%s = %s;' % (d, self.load(t, p, m, False)))
            if I['rop'] == 'xchg': nv = v
            elif c: nv = self.norm(t, '(uint64_t)%s %s (uint64_t)%s' % (d, c, v))
            else: raise IRError('atomicrmw ' + I['rop'])
            self.store(t, p, nv, m, False)
            w('ir_atomic_end();')
        elif op == 'getelementptr':
            w('%s = %s;' % (d, self.gep(I['sty'], self.ex(I['bty'], I['base']), I['idx'])))
        elif op == 'extractvalue':
            e = self.ex(I['ty'], I['a'])
            for i in I['idx']: e += '.f%d' % i
            w('%s = %s;' % (d, e))
        elif op == 'insertvalue':
            w('%s = %s;' % (d, self.ex(I['ty'], I['a'])))
            e = d
            for i in I['idx']: e += '.f%d' % i
            w('%s = %s;' % (e, self.ex(I['ety'], I['b'])))
        elif op == 'br':
            if I['cond'] is None: w(self.goto(I['t']))
            else:
                w('if (%s) %s else %s' % (self.ex(('int', 1), I['cond']), self.goto(I['t']), self.goto(I['f'])))
        elif op == 'switch':
            w('switch (%s) {' % self.ex(I['ty'], I['v']))
            for cv, lb in I['cases']:
                w('  case %s: %s' % (E.const_int(I['ty'], cv), self.goto(lb)))
            w('  default: %s' % self.goto(I['default']))
            w('}')
        elif op == 'ret':
            w(self.ret_stmt(None if I['v'] is None else self.ex(I['ty'], I['v'])))
        elif op == 'unreachable':
            w('IR_CHECK(0, "unreachable executed"); ' + self.ret_stmt())
        elif op == 'resume':
            w('EXC = 1; ' + self.ret_stmt())
        elif op == 'landingpad':
            ids = []
            for kind, cv in I['clauses']:
                if kind != 'catch': raise IRError('filter clause')
                acc = set(); E.val_refs(cv, acc)
                if not acc: ids.append(0)        # catch-all (null)
                else:
                    (n,) = acc; ids.append(E.ti_ids[n])
            w('%s.f0 = EXC_OBJ; %s.f1 = ir_lp_select(%d, (const int[]){%s}); EXC = 0;' % (d, d, len(ids), ','.join(map(str, ids + [0]))))
        elif op in ('call', 'invoke'):
            self.call(I)
        else:
            raise IRError('emit ' + op)

    def check_order(self, I):
        o = I.get('order')
        if I.get('atomic') or I['op'] in ('cmpxchg', 'atomicrmw'):
            if o != 'seq_cst':
                self.E.warnings.append('%s: atomic ordering %s treated as seq_cst' % (self.f.name, o))

    def load(self, ty, p, mask, atomic):
        E = self.E; t = E.resolve(ty)
        if t[0] in ('int', 'ptr'):
            n = E.sizeof(t)
            if n not in (1, 2, 4, 8, 16): raise IRError('load width %d' % n)
            e = 'ld%d(%s, %d)' % (n * 8, p, mask)
            if t[0] == 'int' and t[1] not in (8, 16, 32, 64, 128): e = self.norm(t, e)
            return e
        if t[0] == 'fp':
            return ('ir_u2f(ld32(%s, %d))' if t[1] == 32 else 'ir_u2d(ld64(%s, %d))') % (p, mask)
        if t[0] == 'struct':
            fs = []
            for i, f in enumerate(t[1]):
                fs.append(self.load(f, '(%s + UINT64_C(%d))' % (p, E.field_off(t, i)), mask, atomic))
            return '((%s){%s})' % (E.ctype(t), ', '.join(fs))
        raise IRError('load of %r' % (t,))

    def store(self, ty, p, v, mask, atomic):
        E = self.E; t = E.resolve(ty)
        if t[0] in ('int', 'ptr'):
            n = E.sizeof(t)
            self.w('st%d(%s, %s, %d);' % (n * 8, p, v, mask))
        elif t[0] == 'fp':
            self.w(('st32(%s, ir_f2u(%s), %d);' if t[1] == 32 else 'st64(%s, ir_d2u(%s), %d);') % (p, v, mask))
        elif t[0] == 'struct':
            for i, f in enumerate(t[1]):
                self.store(f, '(%s + UINT64_C(%d))' % (p, E.field_off(t, i)), '(%s).f%d' % (v, i), mask, atomic)
        else: raise IRError('store of %r' % (t,))

    def gep(self, sty, base, idx):
        E = self.E
        terms = [base]; const = 0; t = sty
        for n, (it, iv) in enumerate(idx):
            if n == 0: scale = E.sizeof(t)
            else:
                rt = E.resolve(t)
                if rt[0] == 'struct':
                    i = E.const_int(it, iv); const += E.field_off(rt, i); t = rt[1][i]; continue
                elif rt[0] in ('array', 'vec'):
                    scale = E.sizeof(rt[2]); t = rt[2]
                else: raise IRError('gep into %r' % (rt,))
            try:
                i = E.const_int(it, iv); b = E.bits(it)
                if i >> (b - 1): i -= 1 << b
                const += i * scale
            except NotConst:
                e = self.ex(it, iv)
                if E.bits(it) < 64: e = '(uint64_t)' + self.sx(it, e)
                terms.append('%s * UINT64_C(%d)' % (e, scale) if scale != 1 else e)
        if const: terms.append('UINT64_C(%d)' % (const & (2**64 - 1)))
        return '(' + ' + '.join(terms) + ')'

    # ------------------------------------------------------------ calls
    def call(self, I):
        E = self.E; w = self.w
        d = self.var(I['dst']) if I['dst'] is not None and E.resolve(I['rty'])[0] != 'void' else None
        callee = I['callee']
        while callee[0] == 'ccast': callee = callee[3]
        args = [(t, v) for t, v, a in I['args']]
        may_unwind = True
        if callee[0] == 'global':
            name = E.resolve_alias(callee[1])
            if name.startswith('llvm.'):
                self.intrinsic(I, name, d, args);
                if I['op'] == 'invoke': w(self.goto(I['ok']))
                return
            f = E.m.funcs.get(name)
            if f is None: raise IRError('call to unknown @' + name)
            if 'nounwind' in f.attrs or 'nounwind' in I['cattrs']: may_unwind = False
            for g in I['cattrs'].get('groups', []):
                if 'nounwind' in E.m.attrgroups.get(g, ()): may_unwind = False
            if f.blocks is None:
                if name in NOOP_EXTERNS:
                    if d: w('%s = 0;' % d)
                    if I['op'] == 'invoke': w(self.goto(I['ok']))
                    return
                cn = E.cname(name)
                rt = E.ctype(I['rty'])
                proto = 'extern %s %s(%s);' % (rt, cn, ', '.join(E.ctype(t) for t, v in args) or 'void')
                if name in E.externs and E.externs[name][0] != proto:
                    raise IRError('extern %s used with two signatures' % name)
                E.externs[name] = (proto, [E.ctype(t) for t, v in args])
            else:
                cn = E.cname(name)
            ce = '%s(%s)' % (cn, ', '.join(self.ex(t, v) for t, v in args))
            w('%s%s;' % (d + ' = ' if d else '', ce))
        else:
            # indirect call: dispatch over address-taken functions with matching signature
            fp = self.ex(('ptr', ('int', 8)), callee)
            sig = (E.ctype(I['rty']), tuple(E.ctype(t) for t, v in args))
            cands = []
            for n in E.rfuncs:
                f = E.m.funcs[n]
                if f.blocks is None or f.vararg or n not in E.taken(): continue
                s2 = (E.ctype(f.ret), tuple(E.ctype(t) for t, pn, a in f.params))
                if s2 == sig: cands.append(n)
            w('switch (%s) {' % fp)
            for n in cands:
                w('  case UINT64_C(%d): %s%s(%s); break;' % (E.faddr[n], d + ' = ' if d else '', E.cname(n), ', '.join(self.ex(t, v) for t, v in args)))
            w('  default: IR_CHECK(0, "indirect call to unknown target");%s' % (' %s = %s;' % (d, self.zero(I['rty'])) if d else ''))
            w('}')
        if I['op'] == 'invoke':
            w('if (EXC) %s else %s' % (self.goto(I['lp']), self.goto(I['ok'])))
        elif may_unwind:
            w('if (EXC) ' + self.ret_stmt())

    def intrinsic(self, I, name, d, args):
        E = self.E; w = self.w
        if name.startswith(SKIP_INTRINSICS):
            return
        A = [self.ex(t, v) for t, v in args]
        base = name.split('.')
        if name.startswith(('llvm.memcpy.', 'llvm.memmove.')):
            w('ir_memmove(%s, %s, (uint64_t)%s);' % (A[0], A[1], A[2]))
        elif name.startswith('llvm.memset.'):
            w('ir_memset(%s, %s, (uint64_t)%s);' % (A[0], A[1], A[2]))
        elif name.startswith('llvm.ctlz.'):
            w('%s = ir_ctlz(%s, %d);' % (d, A[0], E.bits(args[0][0])))
        elif name.startswith('llvm.cttz.'):
            w('%s = ir_cttz(%s, %d);' % (d, A[0], E.bits(args[0][0])))
        elif name.startswith('llvm.ctpop.'):
            w('%s = ir_ctpop(%s);' % (d, A[0]))
        elif name.startswith(('llvm.umax.', 'llvm.umin.')):
            w('%s = (%s %s %s) ? %s : %s;' % (d, A[0], '>' if 'umax' in name else '<', A[1], A[0], A[1]))
        elif name.startswith(('llvm.smax.', 'llvm.smin.')):
            t = args[0][0]
            w('%s = (%s %s %s) ? %s : %s;' % (d, self.sx(t, A[0]), '>' if 'smax' in name else '<', self.sx(t, A[1]), A[0], A[1]))
        elif name.startswith('llvm.usub.sat.'):
            w('%s = (%s > %s) ? %s : 0;' % (d, A[0], A[1], self.norm(args[0][0], '(uint64_t)%s - (uint64_t)%s' % (A[0], A[1]))))
        elif name.startswith('llvm.uadd.sat.'):
            t = args[0][0]; n = E.bits(t)
            w('%s = %s; if (%s < %s) %s = %s;' % (d, self.norm(t, '(uint64_t)%s + (uint64_t)%s' % (A[0], A[1])), d, A[0], d, E.lit(t, (1 << n) - 1)))
        elif name.startswith(('llvm.uadd.with.overflow.', 'llvm.usub.with.overflow.', 'llvm.umul.with.overflow.')):
            t = args[0][0]; n = E.bits(t)
            if n > 64: raise IRError('with.overflow i128')
            o = {'uadd': '+', 'usub': '-', 'umul': '*'}[base[1]]
            w('{ u128 ir_x = (u128)%s %s (u128)%s; %s.f0 = %s; %s.f1 = ((ir_x >> %d) != 0); }' % (A[0], o, A[1], d, self.norm(t, '(uint64_t)ir_x'), d, n))
        elif name.startswith(('llvm.sadd.with.overflow.', 'llvm.ssub.with.overflow.', 'llvm.smul.with.overflow.')):
            t = args[0][0]; n = E.bits(t)
            if n > 64: raise IRError('with.overflow i128')
            o = {'sadd': '+', 'ssub': '-', 'smul': '*'}[base[1]]
            w('{ i128 ir_x = (i128)%s %s (i128)%s; %s.f0 = %s; %s.f1 = (ir_x != (i128)%s); }' % (self.sx(t, A[0]), o, self.sx(t, A[1]), d, self.norm(t, '(uint64_t)ir_x'), d, self.sx(t, '%s.f0' % d)))
        elif name == 'llvm.trap':
            w('ir_trap();')
        elif name == 'llvm.eh.typeid.for':
            acc = set(); E.val_refs(args[0][1], acc)
            (n,) = acc
            w('%s = %d;' % (d, E.ti_ids[n]))
        elif name.startswith('llvm.expect.') or name.startswith(('llvm.launder.', 'llvm.strip.')):
            w('%s = %s;' % (d, A[0]))
        elif name.startswith('llvm.objectsize.'):
            w('%s = %s;' % (d, E.lit(I['rty'], 2**E.bits(I['rty']) - 1)))
        elif name.startswith('llvm.is.constant.'):
            w('%s = 0;' % d)
        elif name == 'llvm.stacksave':
            w('%s = SP;' % d)
        elif name == 'llvm.stackrestore':
            w('SP = %s;' % A[0])
        elif name.startswith('llvm.abs.'):
            t = args[0][0]
            w('%s = (%s < 0) ? %s : %s;' % (d, self.sx(t, A[0]), self.norm(t, '(uint64_t)0 - (uint64_t)%s' % A[0]), A[0]))
        elif name.startswith('llvm.bswap.'):
            w('%s = ir_bswap(%s, %d);' % (d, A[0], E.bits(args[0][0])))
        elif name.startswith(('llvm.fshl.', 'llvm.fshr.')):
            t = args[0][0]; n = E.bits(t)
            if n > 64: raise IRError('fsh i128')
            w('%s = %s;' % (d, self.norm(t, 'ir_fsh((uint64_t)%s, (uint64_t)%s, (uint64_t)%s, %d, %d)' % (A[0], A[1], A[2], n, 1 if 'fshl' in name else 0))))
        else:
            raise IRError('unsupported intrinsic ' + name)

def E_ctype_key(ct):
    return ct.replace(' ', '_')

def main():
    ap = argparse.ArgumentParser()
    ap.add_argument('ll'); ap.add_argument('-o', required=True)
    ap.add_argument('--roots', default=r'^w_')
    ap.add_argument('--meta'); ap.add_argument('--header'); ap.add_argument('--threads', type=int, default=1)
    a = ap.parse_args()
    m = parse_module(open(a.ll).read())
    E = Emitter(m, a.roots, a.threads)
    try:
        c = E.emit()
    except IRError as e:
        sys.stderr.write('ir2c: error: %s\n' % e); sys.exit(2)
    open(a.o, 'w').write(c)
    if a.header: open(a.header, 'w').write(E.header_text)
    if a.meta:
        json.dump({'functions': E.meta_funcs, 'roots': E.roots, 'externs': sorted(E.externs),
                   'warnings': sorted(set(E.warnings)), 'glb_size': E.glb_size, 'glc_size': E.glc_size,
                   'globals': {n: list(E.ginfo[n]) for n in E.rglobals}}, open(a.meta, 'w'), indent=1)

if __name__ == '__main__':
    main()
