// recording leaf allocator shared by the adapter and smart pointer shims
#ifndef VERIF_LEAF_HPP
#define VERIF_LEAF_HPP
#include "hooks.hpp"
using namespace foonathan::memory;
extern "C" {
// kind: 0 node, 1 array, 2 try node, 3 try array ; return 0 = failure
void* verif_leaf_alloc(ulong id, ulong kind, ulong count, ulong size, ulong alignment);
void verif_leaf_dealloc(ulong id, ulong kind, void* p, ulong count, ulong size, ulong alignment);
ulong verif_leaf_try_dealloc(ulong id, ulong kind, void* p, ulong count, ulong size, ulong alignment);
ulong verif_leaf_max(ulong id, ulong which);
void verif_tracker(ulong what, void* p, ulong count, ulong size, ulong alignment);
void verif_mutex(ulong id, ulong lock);
void verif_dtor(ulong id);
}

// recording leaf: stateful, composable (Tag makes distinct types for nesting: the library's ebo_storage bases must differ)
template <int Tag>
struct rec_t
{
    using is_stateful = std::true_type;
    ulong id;
    explicit rec_t(ulong i = 1) noexcept : id(i) {}
    rec_t(rec_t&& o) noexcept : id(o.id) {}
    rec_t& operator=(rec_t&& o) noexcept { id = o.id; return *this; }
    void* allocate_node(std::size_t s, std::size_t a)
    {
        void* p = verif_leaf_alloc(id, 0, 1, s, a);
        if (!p) FOONATHAN_THROW(out_of_memory(allocator_info("verif::rec", this), s));
        return p;
    }
    void* allocate_array(std::size_t c, std::size_t s, std::size_t a)
    {
        void* p = verif_leaf_alloc(id, 1, c, s, a);
        if (!p) FOONATHAN_THROW(out_of_memory(allocator_info("verif::rec", this), c * s));
        return p;
    }
    void deallocate_node(void* p, std::size_t s, std::size_t a) noexcept { verif_leaf_dealloc(id, 0, p, 1, s, a); }
    void deallocate_array(void* p, std::size_t c, std::size_t s, std::size_t a) noexcept { verif_leaf_dealloc(id, 1, p, c, s, a); }
    void* try_allocate_node(std::size_t s, std::size_t a) noexcept { return verif_leaf_alloc(id, 2, 1, s, a); }
    void* try_allocate_array(std::size_t c, std::size_t s, std::size_t a) noexcept { return verif_leaf_alloc(id, 3, c, s, a); }
    bool try_deallocate_node(void* p, std::size_t s, std::size_t a) noexcept { return verif_leaf_try_dealloc(id, 0, p, 1, s, a); }
    bool try_deallocate_array(void* p, std::size_t c, std::size_t s, std::size_t a) noexcept { return verif_leaf_try_dealloc(id, 1, p, c, s, a); }
    std::size_t max_node_size() const noexcept { return verif_leaf_max(id, 0); }
    std::size_t max_array_size() const noexcept { return verif_leaf_max(id, 1); }
    std::size_t max_alignment() const noexcept { return verif_leaf_max(id, 2); }
};
// minimal RawAllocator: only the two mandatory members; allocator_traits supplies arrays and the maxima
struct minrec
{
    using is_stateful = std::true_type;
    ulong id;
    explicit minrec(ulong i = 1) noexcept : id(i) {}
    void* allocate_node(std::size_t s, std::size_t a)
    {
        void* p = verif_leaf_alloc(id, 0, 1, s, a);
        if (!p) FOONATHAN_THROW(out_of_memory(allocator_info("verif::minrec", this), s));
        return p;
    }
    void deallocate_node(void* p, std::size_t s, std::size_t a) noexcept { verif_leaf_dealloc(id, 0, p, 1, s, a); }
};
// standard-library style Allocator (value_type, allocate(n), deallocate(p, n)): allocator_traits rebinds it to char and
// forwards sizes in bytes; such an allocator guarantees fundamental alignment only (recorded as 16)
template <typename T>
struct stdrec
{
    using value_type = T;
    ulong id;
    explicit stdrec(ulong i = 1) noexcept : id(i) {}
    template <typename U>
    stdrec(const stdrec<U>& o) noexcept : id(o.id) {}
    T* allocate(std::size_t n)
    {
        void* p = verif_leaf_alloc(id, 0, 1, n * sizeof(T), 16);
        if (!p) FOONATHAN_THROW(out_of_memory(allocator_info("verif::stdrec", this), n));
        return static_cast<T*>(p);
    }
    void deallocate(T* p, std::size_t n) noexcept { verif_leaf_dealloc(id, 0, p, 1, n * sizeof(T), 16); }
};
using rec = rec_t<0>;
using recB = rec_t<1>;
using recC = rec_t<2>;
#endif
