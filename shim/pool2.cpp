// shim group "pool2": memory_pool<node_pool|array_pool> over growing_block_allocator<hook_raw> with representation access for the
// inductive pool harness (pool_step.c)
#include "hooks.hpp"
#include <foonathan/memory/memory_pool.hpp>
using namespace foonathan::memory;
using namespace vshim;
using gba = growing_block_allocator<hook_raw>;
using mbs = detail::memory_block_stack;
W void w_install_handlers() { install_handlers(); }
W ulong w_impl_offset() { return mbs::implementation_offset(); }
W void w_node_write(void* n, void* prev, ulong usable) { auto* p = static_cast<mbs::node*>(n); p->prev = static_cast<mbs::node*>(prev); p->usable_size = usable; }
W void* w_node_prev(void* n) { return static_cast<mbs::node*>(n)->prev; }
W ulong w_node_usable(void* n) { return static_cast<mbs::node*>(n)->usable_size; }
W ulong w_off_fl_first() { return offsetof(detail::free_memory_list, first_); }
W ulong w_off_fl_node_size() { return offsetof(detail::free_memory_list, node_size_); }
W ulong w_off_fl_capacity() { return offsetof(detail::free_memory_list, capacity_); }
W ulong w_off_ofl_begin() { return offsetof(detail::ordered_free_memory_list, begin_proxy_); }
W ulong w_off_ofl_end() { return offsetof(detail::ordered_free_memory_list, end_proxy_); }
W ulong w_off_ofl_node_size() { return offsetof(detail::ordered_free_memory_list, node_size_); }
W ulong w_off_ofl_capacity() { return offsetof(detail::ordered_free_memory_list, capacity_); }
W ulong w_off_ofl_last_dealloc() { return offsetof(detail::ordered_free_memory_list, last_dealloc_); }
W ulong w_off_ofl_last_dealloc_prev() { return offsetof(detail::ordered_free_memory_list, last_dealloc_prev_); }
template <class T>
static long leaked_of(T* o)
{
#if FOONATHAN_MEMORY_DEBUG_LEAK_CHECK
    return o->allocated_;
#else
    (void)o; return 0;
#endif
}
#define POOL(P, TYPE)                                                                               \
    using P##_t = memory_pool<TYPE, gba>;                                                           \
    using P##_tr = allocator_traits<P##_t>;                                                         \
    using P##_ct = composable_allocator_traits<P##_t>;                                              \
    W ulong w_##P##_sizeof() { return sizeof(P##_t); }                                              \
    W ulong w_##P##_list_is_ordered() { return std::is_same<TYPE::type, detail::ordered_free_memory_list>::value; } \
    W void w_##P##_set(void* o, void* used, ulong next_bs, ulong id, long leaked)                   \
    {                                                                                               \
        auto* p = static_cast<P##_t*>(o);                                                           \
        p->arena_.used_.head_ = static_cast<mbs::node*>(used);                                      \
        static_cast<gba&>(p->arena_).block_size_ = next_bs;                                         \
        static_cast<hook_raw&>(static_cast<gba&>(p->arena_)).id = id;                               \
        (void)leaked;                                                                               \
        P##_set_leak(p, leaked);                                                                    \
    }                                                                                               \
    W void* w_##P##_list(void* o) { return &static_cast<P##_t*>(o)->free_list_; }                  \
    W void* w_##P##_used(void* o) { return static_cast<P##_t*>(o)->arena_.used_.head_; }           \
    W ulong w_##P##_next_bs(void* o) { return static_cast<gba&>(static_cast<P##_t*>(o)->arena_).block_size_; } \
    W long w_##P##_leaked(void* o) { return leaked_of(static_cast<P##_t*>(o)); }                   \
    W void w_##P##_ctor(void* o, ulong ns, ulong bs, ulong id) { VTRY ::new (o) P##_t(ns, bs, hook_raw(id)); VCATCH() } \
    W void w_##P##_dtor(void* o) { static_cast<P##_t*>(o)->~P##_t(); }                             \
    W void w_##P##_move_ctor(void* o, void* f) { ::new (o) P##_t(detail::move(*static_cast<P##_t*>(f))); } \
    W void w_##P##_move_assign(void* o, void* f) { *static_cast<P##_t*>(o) = detail::move(*static_cast<P##_t*>(f)); } \
    W void* w_##P##_allocate_node(void* o, ulong s, ulong a) { VTRY return P##_tr::allocate_node(*static_cast<P##_t*>(o), s, a); VCATCH(nullptr) } \
    W void* w_##P##_allocate_array(void* o, ulong c, ulong s, ulong a) { VTRY return P##_tr::allocate_array(*static_cast<P##_t*>(o), c, s, a); VCATCH(nullptr) } \
    W void w_##P##_deallocate_node(void* o, void* p, ulong s, ulong a) { P##_tr::deallocate_node(*static_cast<P##_t*>(o), p, s, a); } \
    W void w_##P##_deallocate_array(void* o, void* p, ulong c, ulong s, ulong a) { P##_tr::deallocate_array(*static_cast<P##_t*>(o), p, c, s, a); } \
    W void* w_##P##_try_allocate_node(void* o, ulong s, ulong a) { return P##_ct::try_allocate_node(*static_cast<P##_t*>(o), s, a); } \
    W void* w_##P##_try_allocate_array(void* o, ulong c, ulong s, ulong a) { return P##_ct::try_allocate_array(*static_cast<P##_t*>(o), c, s, a); } \
    W ulong w_##P##_try_deallocate_node(void* o, void* p, ulong s, ulong a) { return P##_ct::try_deallocate_node(*static_cast<P##_t*>(o), p, s, a); } \
    W ulong w_##P##_try_deallocate_array(void* o, void* p, ulong c, ulong s, ulong a) { return P##_ct::try_deallocate_array(*static_cast<P##_t*>(o), p, c, s, a); } \
    W ulong w_##P##_max_node_size(void* o) { return P##_tr::max_node_size(*static_cast<P##_t*>(o)); } \
    W ulong w_##P##_max_array_size(void* o) { return P##_tr::max_array_size(*static_cast<P##_t*>(o)); } \
    W ulong w_##P##_max_alignment(void* o) { return P##_tr::max_alignment(*static_cast<P##_t*>(o)); } \
    W ulong w_##P##_capacity_left(void* o) { return static_cast<P##_t*>(o)->capacity_left(); }     \
    W ulong w_##P##_next_capacity(void* o) { return static_cast<P##_t*>(o)->next_capacity(); }     \
    W ulong w_##P##_node_size(void* o) { return static_cast<P##_t*>(o)->node_size(); }             \
    W ulong w_##P##_min_block_size(ulong ns, ulong n) { return P##_t::min_block_size(ns, n); }
template <class T>
static void set_leak(T* p, long v)
{
#if FOONATHAN_MEMORY_DEBUG_LEAK_CHECK
    p->allocated_ = v;
#else
    (void)p; (void)v;
#endif
}
#define pn_set_leak set_leak
#define pa_set_leak set_leak
POOL(pn, node_pool)
POOL(pa, array_pool)
