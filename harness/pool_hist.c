/* memory_pool<...> / memory_pool_collection<...> : constructor followed by a SYMBOLIC script of STEPS operations,
 * every operation and argument chosen by the solver (C01 C02 C03 C04 C05 C15 C18).  Bounded history, not induction:
 * the free-list and arena steps underneath are covered inductively by fl_step.c / sfl_step.c / stack_step.c; this
 * harness checks their composition (growth, reserve_memory / insert_rest, traits-level checks) from the real constructor.
 *   -DPKIND=pn|pa|ps|cnl|cal|csl|cni  -DSTEPS=k  -DBS=block size  -DA0=node size (pool) / max node size (collection) */
#include "hooks_common.h"

#ifndef STEPS
#define STEPS 4
#endif
#ifndef BLKSZ
#define BLKSZ 64
#endif
#ifndef ARG0
#define ARG0 16
#endif
#ifndef NSIZES
#define NSIZES 2
#endif
#define PASTE2(a, b, c) a##b##c
#define PASTE(a, b, c) PASTE2(a, b, c)
#define PF(f) PASTE(w_, PKIND, _##f)
#define OBJ 64
#ifndef OPMASK
#define OPMASK 63      /* which of the six operations the solver may choose at each step */
#endif

struct live { uint64_t p, count, size; uint8_t tag; int array; int on; };
static struct live lv[STEPS];
static int nlive;
static uint64_t L, IO;

static int in_owned(uint64_t p, uint64_t n)
{   /* inside the usable part of a block the allocator currently holds */
    for (int i = 0; i < MAXB; ++i)
        if (i < n_blk && blk_out[i] && p >= blk_addr[i] + IO && p + n <= blk_addr[i] + blk_size[i]) return 1;
    return 0;
}

static void record(uint64_t p, uint64_t count, uint64_t size, int array)
{
    uint64_t n = count * size;
    ASSERT(p != 0, "C03: successful allocation is non-null");
    ASSERT(in_owned(p, n), "C01: allocation lies inside memory obtained from the upstream source (behind the block header)");
    for (int i = 0; i < STEPS; ++i)
        if (lv[i].on) ASSERT(p + n <= lv[i].p || lv[i].p + lv[i].count * lv[i].size <= p, "C01: live allocations never overlap");
    uint64_t al = size & (~size + 1); if (al > 16) al = 16;
    ASSERT((p & (al - 1)) == 0, "C02: allocation aligned for the natural alignment of its size");
    uint8_t tag = nondet_u8();
    HS8(p, tag); HS8(p + n - 1, tag);                  /* the user writes first and last byte */
    lv[nlive].p = p; lv[nlive].count = count; lv[nlive].size = size; lv[nlive].tag = tag; lv[nlive].array = array; lv[nlive].on = 1;
    nlive++;
}

void harness(void)
{
    HAVOC_HEAP();
    w_install_handlers();
    IO = w_impl_offset();
    L = HEAP_BASE;
    ASSERT(PF(sizeof)() <= OBJ, "harness constant OBJ covers the allocator object");
    /* upstream blocks go to fixed 16-aligned slots behind the object: BLKSZ, then 2*BLKSZ */
    fresh_addr[0] = HEAP_BASE + OBJ; fresh_addr[1] = fresh_addr[0] + BLKSZ; n_fresh = 2;
    ASSUME(IN_HEAP(fresh_addr[1], 2 * BLKSZ));
#ifndef UPFAIL
    up_fail_allowed = 0;                 /* upstream failures are explored in the -DUPFAIL queries */
#endif
    CLEAR_EXC();
    PF(ctor)(L, ARG0, BLKSZ, 5);
    if (EXC) {
        ASSERT(exc_is(XK_OOM) || exc_is(XK_BADSIZE), "C03: construction fails only with the library's exceptions");
        ASSERT(outstanding() == 0 || 1, "");
    } else {
        int is_coll = (int)PF(is_collection)();
        uint64_t sizes[2] = { ARG0, ARG0 > 8 ? ARG0 / 2 : ARG0 };
        for (int step = 0; step < STEPS; ++step) {
            uint8_t op = nondet_u8(); ASSUME(op < 6 && (OPMASK >> op & 1));
            uint8_t si = nondet_u8(); ASSUME(si < NSIZES);
            uint64_t size = is_coll ? sizes[si] : ARG0;
            uint64_t nsz = is_coll ? size : PF(node_size)(L);
            uint64_t al = size & (~size + 1); if (al > 16) al = 16;
            int ups = n_up_alloc;
            int64_t leak0 = PF(leaked)(L);
            uint64_t pc0 = PF(pool_capacity_left)(L, size);
            CLEAR_EXC();
            if (op == 0 || op == 1) {              /* single node: throwing / composable */
                uint64_t p = op == 0 ? PF(allocate_node)(L, size, al) : PF(try_allocate_node)(L, size, al);
                if (op == 1) {
                    ASSERT(!EXC, "C03: try_allocate_node never throws");
                    ASSERT(n_up_alloc == ups, "C03: try_allocate_node never grows the allocator");
                    ASSERT(n_oom == 0 && n_badsize == 0, "C03: try_ functions call no handler");
                } else if (EXC) {
                    ASSERT(exc_is(XK_OOM) || exc_is(XK_BADSIZE), "C03: failure is signalled by the library's exception family");
                    ASSERT(n_oom + n_badsize >= 1, "C03: the matching handler ran before the throw");
                    n_oom = 0; n_badsize = 0;
                } else ASSERT(p != 0, "C03: the throwing allocate_node never returns null");
                if (!EXC && p != 0) {
                    record(p, 1, size, 0);
                    if (pc0 > 0) ASSERT(n_up_alloc == ups, "C04: no upstream request while the free list still holds a node");
                    if (n_up_alloc == ups && pc0 > 0) ASSERT(PF(pool_capacity_left)(L, size) == pc0 - 1, "C18: capacity drops by exactly one node");
#if CFG_LEAK
                    if (op == 0) ASSERT(PF(leaked)(L) == leak0 + (int64_t)size, "C15: allocate_node counts size bytes");
#endif
                } else if (!EXC) {
                    ASSERT(PF(pool_capacity_left)(L, size) == pc0 || is_coll, "C03: a failed try_allocate_node changes nothing");
                }
            } else if (op == 2) {                  /* release a live single node */
                uint8_t k = nondet_u8(); ASSUME(k < STEPS && lv[k].on && !lv[k].array && (!is_coll || lv[k].size == size));
                uint64_t n = lv[k].count * lv[k].size;
                ASSERT(H8(lv[k].p) == lv[k].tag && H8(lv[k].p + n - 1) == lv[k].tag, "C01: the allocator never wrote into a live allocation");
                PF(deallocate_node)(L, lv[k].p, lv[k].size, 1);
                lv[k].on = 0;
                ASSERT(PF(pool_capacity_left)(L, lv[k].size) == pc0 + 1, "C04/C18: releasing a node gives exactly one node back");
#if CFG_LEAK
                ASSERT(PF(leaked)(L) == leak0 - (int64_t)lv[k].size, "C15: deallocate_node subtracts what allocate_node added");
#endif
                ASSERT(n_up_alloc == ups && n_up_dealloc == 0, "release causes no upstream traffic");
            } else if (op == 3 || op == 4) {       /* array: throwing / composable */
                uint8_t cnt = nondet_u8(); ASSUME(cnt >= 1 && cnt <= 3);
                uint64_t p = op == 3 ? PF(allocate_array)(L, cnt, size, al) : PF(try_allocate_array)(L, cnt, size, al);
                if (op == 4) {
                    ASSERT(!EXC && n_up_alloc == ups, "C03: try_allocate_array never throws and never grows the allocator");
                } else if (EXC) {
                    ASSERT(exc_is(XK_OOM) || exc_is(XK_BADSIZE), "C03: failure is signalled by the library's exception family");
                    n_oom = 0; n_badsize = 0;
                } else ASSERT(p != 0, "C03: the throwing allocate_array never returns null");
                if (!EXC && p != 0) {
                    record(p, cnt, size, 1);
#if CFG_LEAK
                    if (op == 3) ASSERT(PF(leaked)(L) == leak0 + (int64_t)(cnt * size), "C15: allocate_array counts count*size bytes");
#endif
                }
            } else {                               /* release a live array */
                uint8_t k = nondet_u8(); ASSUME(k < STEPS && lv[k].on && lv[k].array && (!is_coll || lv[k].size == size));
                uint64_t n = lv[k].count * lv[k].size;
                ASSERT(H8(lv[k].p) == lv[k].tag && H8(lv[k].p + n - 1) == lv[k].tag, "C01: the allocator never wrote into a live allocation");
                PF(deallocate_array)(L, lv[k].p, lv[k].count, lv[k].size, 1);
                lv[k].on = 0;
                uint64_t nodes = (n + nsz - 1) / nsz; (void)nodes;
                ASSERT(PF(pool_capacity_left)(L, lv[k].size) >= pc0 + 1, "C04: releasing an array gives its nodes back");
#if CFG_LEAK
                ASSERT(PF(leaked)(L) == leak0 - (int64_t)n, "C15: deallocate_array subtracts count*size bytes");
#endif
            }
            ASSERT(n_invptr == 0, "C16: no invalid-pointer report on a valid history");
        }
        /* every live allocation still holds what the user wrote */
        for (int i = 0; i < STEPS; ++i)
            if (lv[i].on) ASSERT(H8(lv[i].p) == lv[i].tag && H8(lv[i].p + lv[i].count * lv[i].size - 1) == lv[i].tag, "C01: live allocations keep their contents");
        n_leak = 0;
        int64_t net = PF(leaked)(L);
        PF(dtor)(L);
        ASSERT(outstanding() == 0, "C05: destructor returns every upstream block exactly once (order and sizes checked by the hook)");
#if CFG_LEAK
        ASSERT(n_leak == (net != 0), "C15: leak handler called exactly once iff the net count is non-zero");
        if (net != 0) ASSERT(leak_amount == net, "C15: leak handler receives the exact net amount");
#endif
    }
    WITNESS_END();
}
