// shim group "cont": real libstdc++ containers on std_allocator<T, recording leaf> (C10)
#include "leaf.hpp"
#include <foonathan/memory/std_allocator.hpp>
#include <foonathan/memory/container.hpp>
#include <vector>
#include <forward_list>
#include <list>
using namespace vshim;
W void w_install_handlers() { install_handlers(); }
W void w_leaf_ctor(void* o, ulong id) { ::new (o) rec(id); }
template <class C> struct ops
{
    using A = typename C::allocator_type;
    static void ctor(void* o, void* leaf) { ::new (o) C(A(*static_cast<rec*>(leaf))); }
    static void dtor(void* o) { static_cast<C*>(o)->~C(); }
    static void copy_ctor(void* o, void* from) { ::new (o) C(*static_cast<C*>(from)); }
    static void move_ctor(void* o, void* from) { ::new (o) C(std::move(*static_cast<C*>(from))); }
    static void copy_assign(void* o, void* from) { *static_cast<C*>(o) = *static_cast<C*>(from); }
    static void move_assign(void* o, void* from) { *static_cast<C*>(o) = std::move(*static_cast<C*>(from)); }
    static void swap(void* a, void* b) { static_cast<C*>(a)->swap(*static_cast<C*>(b)); }
    static void clear(void* o) { static_cast<C*>(o)->clear(); }
    static ulong size(void* o) { ulong n = 0; for (auto& x : *static_cast<C*>(o)) { (void)x; ++n; } return n; }
    static long sum(void* o) { long s = 0; for (auto& x : *static_cast<C*>(o)) s += x; return s; }
};
#ifdef VERIF_NATIVE
#define CTRY try {
#define CCATCH } catch (...) { verif_exc = 1; verif_exc_kind = 5; }
#else
#define CTRY {
#define CCATCH }
#endif
#define CONT(P, C, PUSH, POP)                                                                       \
    using P##_c = C;                                                                                \
    W ulong w_##P##_sizeof() { return sizeof(P##_c); }                                              \
    W void w_##P##_ctor(void* o, void* leaf) { ops<P##_c>::ctor(o, leaf); }                         \
    W void w_##P##_dtor(void* o) { ops<P##_c>::dtor(o); }                                           \
    W void w_##P##_copy_ctor(void* o, void* f) { CTRY ops<P##_c>::copy_ctor(o, f); CCATCH }         \
    W void w_##P##_move_ctor(void* o, void* f) { ops<P##_c>::move_ctor(o, f); }                     \
    W void w_##P##_copy_assign(void* o, void* f) { CTRY ops<P##_c>::copy_assign(o, f); CCATCH }     \
    W void w_##P##_move_assign(void* o, void* f) { CTRY ops<P##_c>::move_assign(o, f); CCATCH }     \
    W void w_##P##_swap(void* a, void* b) { ops<P##_c>::swap(a, b); }                               \
    W void w_##P##_clear(void* o) { ops<P##_c>::clear(o); }                                         \
    W ulong w_##P##_size(void* o) { return ops<P##_c>::size(o); }                                   \
    W long w_##P##_sum(void* o) { return ops<P##_c>::sum(o); }                                      \
    W void w_##P##_push(void* o, long v) { CTRY static_cast<P##_c*>(o)->PUSH(v); CCATCH }           \
    W void w_##P##_pop(void* o) { if (!static_cast<P##_c*>(o)->empty()) static_cast<P##_c*>(o)->POP(); }
using vec_t = std::vector<long, std_allocator<long, rec>>;
using fl_t = std::forward_list<long, std_allocator<long, rec>>;
using li_t = std::list<long, std_allocator<long, rec>>;
CONT(vec, vec_t, push_back, pop_back)
CONT(fwd, fl_t, push_front, pop_front)
CONT(lst, li_t, push_back, pop_front)
// node size constants of the library versus what the containers really request
W ulong w_fwd_node_size_const() { return forward_list_node_size<long>::value; }
W ulong w_lst_node_size_const() { return list_node_size<long>::value; }
