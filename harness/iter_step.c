/* iteration_allocator<NIT, BlockAllocator>: base case + one inductive step per operation (C07, C01, C02, C03, C05, C08, C12).
 * -DN=1..5 -DOP=...   Block size symbolic NIT..BMAX (so size % NIT != 0 is included), block placed at a symbolic
 * 16-byte residue, every per-iteration top symbolic inside its region. */
#include "hooks_common.h"

#ifndef NIT
#define NIT 3
#endif
#ifndef BMAX
#define BMAX 96
#endif
#ifndef SMAX
#define SMAX 40
#endif
#define PASTE2(a, b, c) a##b##c
#define PASTE(a, b, c) PASTE2(a, b, c)
#define IT(f) PASTE(w_it, NIT, _##f)

#define OP_CTOR 1
#define OP_ALLOC 2
#define OP_TRY_ALLOC 3
#define OP_NEXT 4
#define OP_DTOR 5
#define OP_MOVE_CTOR 6
#define OP_MOVE_ASSIGN 7
#define OP_TRY_DEALLOC 8

#define OBJ 96
static uint64_t L, L2, B, B2, bs, bs2, fence;
static uint64_t start[NIT + 1];

static void establish(uint64_t obj, uint64_t blk, uint64_t size, uint64_t* tops, uint64_t* cur)
{
    *cur = nondet_u8(); ASSUME(*cur < NIT);
    IT(set)(obj, blk, size, *cur, 7);
    for (int i = 0; i < NIT; ++i) {
        uint64_t lo = IT(block_start)(obj, i), hi = IT(block_start)(obj, i + 1);
        ASSUME(lo <= hi);                         /* regions are ordered; proved for the real formula in OP_CTOR */
        tops[i] = lo + (uint64_t)nondet_u8(); ASSUME(tops[i] <= hi);
        IT(set_top)(obj, i, tops[i]);
    }
}

void harness(void)
{
    HAVOC_HEAP();
    w_install_handlers();
    fence = w_fence();
    ASSERT(IT(sizeof)() <= OBJ, "harness constant OBJ covers sizeof(iteration_allocator<NIT>)");
    ASSERT(IT(max_iterations)() == NIT, "max_iterations() is NIT");
    L = HEAP_BASE; L2 = HEAP_BASE + OBJ;
    uint64_t r = nondet_u8(); ASSUME(r < 4);
    B = HEAP_BASE + 2 * OBJ + 16 * r;              /* max_alignment aligned, every residue modulo 64 */
    bs = nondet_u8(); ASSUME(bs >= NIT && bs <= BMAX);
    B2 = B + ((BMAX + 15) & ~15u) + 16;
    bs2 = nondet_u8(); ASSUME(bs2 >= NIT && bs2 <= 32);
    ASSUME(IN_HEAP(B, bs) && IN_HEAP(B2, bs2));
    uint64_t tops[NIT], cur, tops2[NIT], cur2;
    uint64_t wa = HEAP_BASE + (uint64_t)nondet_u16(); ASSUME(IN_HEAP(wa, 1));
    ASSUME(wa >= B);                                /* not inside the allocator objects */
    uint8_t wv;

#if OP == OP_CTOR
    fresh_addr[0] = B; n_fresh = 1;
    CLEAR_EXC();
    IT(ctor)(L, bs, 7);
    if (EXC) {
        ASSERT(exc_is(XK_OOM), "C03: constructor failure is the upstream's out_of_memory");
        ASSERT(n_oom == 1, "C03: out_of_memory handler called exactly once before the throw");
        ASSERT(outstanding() == 0, "C05: nothing held after a failed construction");
    } else {
        ASSERT(n_up_alloc == 1 && up_last_req == bs, "ctor: exactly one upstream block of the requested size");
        ASSERT(IT(cur_iteration)(L) == 0, "ctor: starts in iteration 0");
        ASSERT(IT(block_start)(L, 0) == B, "C07: region 0 starts at the block");
        ASSERT(IT(block_start)(L, NIT) == B + bs, "C07: region NIT-1 ends at the end of the block");
        for (int i = 0; i < NIT; ++i) {
            uint64_t lo = IT(block_start)(L, i), hi = IT(block_start)(L, i + 1);
            ASSERT(lo <= hi, "C07: regions are ordered, hence pairwise disjoint");
            ASSERT(IT(top)(L, i) == lo, "C07: constructor places stack i at block_start(i) (constructor and region formula agree)");
            ASSERT(IT(capacity_left_i)(L, i) == hi - lo, "C07: after construction every region offers its full capacity");
        }
    }
#elif OP == OP_ALLOC || OP == OP_TRY_ALLOC
    ledger_add(B, bs);
    establish(L, B, bs, tops, &cur);
    uint64_t size = nondet_u8(), k = nondet_u8(); ASSUME(size <= SMAX && k <= 6);
    uint64_t al = UINT64_C(1) << k;
    uint64_t lo = IT(block_start)(L, cur), hi = IT(block_start)(L, cur + 1), top = tops[cur];
    uint64_t off = (al - ((top + fence) & (al - 1))) & (al - 1);
    int fits = fence + off + size + fence <= hi - top;
    /* witness: any byte of the block outside the bytes this allocation may write [top, top + fence+off+size+fence) */
    ASSUME(!(fits && wa >= top && wa < top + fence + off + size + fence));
    wv = H8(wa);
    up_alloc_forbidden = 1;
    CLEAR_EXC();
#if OP == OP_ALLOC
    uint64_t p = IT(allocate)(L, size, al);
    if (EXC) {
        ASSERT(!fits, "C03: allocate throws only when the request does not fit the current region");
        ASSERT(exc_is(XK_OOFM), "C03: exhausted iteration region throws out_of_fixed_memory");
        ASSERT(n_oom == 1 && oom_amount == size, "C03: out_of_memory handler called once with the requested size");
    } else {
        ASSERT(p != 0, "C03: the throwing allocate never returns null");
        ASSERT(n_oom == 0, "no handler call on success");
    }
    int failed = EXC != 0;
#else
    uint64_t p = IT(try_allocate)(L, size, al);
    ASSERT(!EXC, "C03: try_allocate never throws");
    ASSERT(n_oom == 0, "C03: try_allocate never calls a handler");
    int failed = p == 0;
#endif
    ASSERT(failed == !fits, "allocation succeeds exactly when fence + padding + size + fence fits the current region");
    if (!failed) {
        ASSERT((p & (al - 1)) == 0, "C02: result aligned as requested");
        ASSERT(p == top + fence + off, "C02: result directly above the old top (after fence and minimal padding)");
        ASSERT(p >= lo && p + size + fence <= hi, "C01: result and its fence inside the current iteration's region");
        ASSERT(IT(top)(L, cur) == p + size + fence, "C18: top advanced by exactly fence + padding + size + fence");
        ASSERT(IT(capacity_left)(L) == hi - (p + size + fence), "C18: capacity_left() decreased by what was consumed");
#if CFG_FILL
        if (size > 0) { uint64_t j = nondet_u8(); ASSUME(j < size); ASSERT(H8(p + j) == 0xCD, "C17: allocated bytes carry the new-memory pattern"); }
#endif
    } else {
        ASSERT(IT(top)(L, cur) == top, "C03: a failed allocation leaves the top unchanged");
    }
    for (int i = 0; i < NIT; ++i) if ((uint64_t)i != cur) ASSERT(IT(top)(L, i) == tops[i], "C07: other iterations' stacks untouched");
    ASSERT(IT(cur_iteration)(L) == cur, "current iteration unchanged");
    ASSERT(H8(wa) == wv, "C01/C07: bytes outside the new allocation (older allocations, other regions) untouched");
#elif OP == OP_NEXT
    ledger_add(B, bs);
    establish(L, B, bs, tops, &cur);
    uint64_t nc = cur + 1 == NIT ? 0 : cur + 1;
    uint64_t lo = IT(block_start)(L, nc), hi = IT(block_start)(L, nc + 1);
    ASSUME(!(wa >= lo && wa < hi));               /* memory of the iteration that is being recycled may be filled */
    wv = H8(wa);
    up_alloc_forbidden = 1;
    IT(next_iteration)(L);
    ASSERT(IT(cur_iteration)(L) == nc, "C07: next_iteration advances to (cur + 1) mod NIT");
    ASSERT(IT(top)(L, nc) == lo, "C07: the new current region is reset to its start");
    ASSERT(IT(capacity_left)(L) == hi - lo, "C07: switching makes the region's full capacity available again");
    for (int i = 0; i < NIT; ++i) if ((uint64_t)i != nc) ASSERT(IT(top)(L, i) == tops[i], "C07: the other NIT-1 regions keep their allocations (memory lives NIT switches)");
    ASSERT(H8(wa) == wv, "C07: bytes of the other regions are not touched by the switch");
    ASSERT(n_up_dealloc == 0, "no upstream call");
#elif OP == OP_DTOR
    ledger_add(B, bs);
    establish(L, B, bs, tops, &cur);
    IT(dtor)(L);
    ASSERT(n_up_dealloc == 1 && outstanding() == 0, "C05: destructor returns the block exactly once");
#elif OP == OP_MOVE_CTOR
    ledger_add(B, bs);
    establish(L, B, bs, tops, &cur);
    wv = H8(wa);
    IT(move_ctor)(L2, L);
    ASSERT(n_up_alloc == 0 && n_up_dealloc == 0, "move ctor: no upstream traffic");
    ASSERT(IT(cur_iteration)(L2) == cur, "C12: destination continues in the same iteration");
    for (int i = 0; i < NIT; ++i) ASSERT(IT(top)(L2, i) == tops[i], "C12: destination has every stack top of the source");
    { uint64_t scratch = HEAP_BASE + 2 * OBJ - 8;      /* out-parameters must live in the modelled heap */
      ASSERT(IT(block)(L2, scratch) == B && H64(scratch) == bs, "C12: destination owns the block"); }
    ASSERT(H8(wa) == wv, "C12: move does not touch the memory");
    STOP_IS_FAILURE = 1;
    IT(dtor)(L);
    ASSERT(n_up_dealloc == 0, "C12: destroying the moved-from object does not touch the transferred block");
    IT(dtor)(L2);
    ASSERT(n_up_dealloc == 1 && outstanding() == 0, "C05/C12: the new owner returns the block exactly once");
#elif OP == OP_MOVE_ASSIGN
    /* the target is a live allocator, or (mf) a moved-from one: cur_ == N and block_ a stale copy of a block that now
       belongs to another object -- it must be assignable and must not release that block */
    uint8_t mf = nondet_u8() & 1;
    ledger_add(B, bs); if (!mf) ledger_add(B2, bs2);
    establish(L, B, bs, tops, &cur);
    establish(L2, B2, bs2, tops2, &cur2);
    if (mf) IT(set)(L2, B2, bs2, NIT, 7);
    IT(move_assign)(L2, L);
    ASSERT(IT(cur_iteration)(L2) == cur, "C12: destination continues in the source's iteration");
    for (int i = 0; i < NIT; ++i) ASSERT(IT(top)(L2, i) == tops[i], "C12: destination has every stack top of the source");
    STOP_IS_FAILURE = 1;
    IT(dtor)(L);
    IT(dtor)(L2);
    ASSERT(outstanding() == 0, "C05/C12: after move assignment and destruction of both objects every block was returned (the target's former block included)");
    ASSERT(n_up_dealloc == (mf ? 1 : 2), "C05/C12: each block owned by the pair returned exactly once; a moved-from target releases nothing");
#elif OP == OP_TRY_DEALLOC
    ledger_add(B, bs);
    establish(L, B, bs, tops, &cur);
    uint64_t q = HEAP_BASE + (uint64_t)nondet_u16(); ASSUME(IN_HEAP(q, 1));
    wv = H8(wa);
    uint64_t res = IT(try_deallocate_node)(L, q, 1, 1);
    ASSERT(res == (uint64_t)(q >= B && q < B + bs), "C08: try_deallocate_node is true exactly for pointers inside the allocator's block");
    for (int i = 0; i < NIT; ++i) ASSERT(IT(top)(L, i) == tops[i], "C08: try_deallocate never changes the stacks");
    ASSERT(H8(wa) == wv && IT(cur_iteration)(L) == cur, "C08: nothing changes");
#else
#error "OP"
#endif
    ASSERT(n_invptr == 0 && n_badsize == 0, "no invalid-pointer or bad-size report on valid use");
    WITNESS_END();
}
