// shim group "arith": pure size/alignment kernels (C19) and bucket selection
#include "shim_common.hpp"
#include <foonathan/memory/detail/align.hpp>
#include <foonathan/memory/detail/ilog2.hpp>
#include <foonathan/memory/detail/free_list.hpp>
#include <foonathan/memory/detail/small_free_list.hpp>
#include <foonathan/memory/detail/free_list_array.hpp>

using namespace foonathan::memory;
using namespace foonathan::memory::detail;

W ulong w_is_valid_alignment(ulong a) { return is_valid_alignment(a); }
W ulong w_round_up(ulong s, ulong a) { return round_up_to_multiple_of_alignment(s, a); }
W ulong w_align_offset(ulong addr, ulong a) { return align_offset(std::uintptr_t(addr), a); }
W ulong w_align_offset_ptr(void* p, ulong a) { return align_offset(p, a); }
W ulong w_is_aligned(void* p, ulong a) { return is_aligned(p, a); }
W ulong w_alignment_for(ulong s) { return alignment_for(s); }
W ulong w_is_power_of_two(ulong x) { return is_power_of_two(x); }
W ulong w_ilog2_base(ulong x) { return ilog2_base(x); }
W ulong w_ilog2(ulong x) { return ilog2(x); }
W ulong w_ilog2_ceil(ulong x) { return ilog2_ceil(x); }
W ulong w_log2_index_from_size(ulong s) { return log2_access_policy::index_from_size(s); }
W ulong w_log2_size_from_index(ulong i) { return log2_access_policy::size_from_index(i); }
W ulong w_identity_index_from_size(ulong s) { return identity_access_policy::index_from_size(s); }
W ulong w_identity_size_from_index(ulong i) { return identity_access_policy::size_from_index(i); }
W ulong w_max_alignment() { return max_alignment; }

// free_list_array<FreeList, Policy>::get : returns the index of the list chosen and its node size.
// The array is built by the real constructor on a fixed_memory_stack over [mem, mem+len).
template <class FL, class AP>
static ulong fla_build(void* obj, void* mem, ulong len, ulong max_node)
{
    fixed_memory_stack st(mem);
    auto* a = ::new (obj) free_list_array<FL, AP>(st, static_cast<char*>(mem) + len, max_node);
    return a->size();
}
template <class FL, class AP>
static ulong fla_get_node_size(void* obj, ulong size)
{
    return static_cast<free_list_array<FL, AP>*>(obj)->get(size).node_size();
}
template <class FL, class AP>
static ulong fla_max_node_size(void* obj)
{
    return static_cast<free_list_array<FL, AP>*>(obj)->max_node_size();
}
#define FLA(NAME, FL, AP)                                                                          \
    W ulong w_fla_build_##NAME(void* o, void* m, ulong l, ulong mx) { return fla_build<FL, AP>(o, m, l, mx); } \
    W ulong w_fla_get_##NAME(void* o, ulong s) { return fla_get_node_size<FL, AP>(o, s); }        \
    W ulong w_fla_max_##NAME(void* o) { return fla_max_node_size<FL, AP>(o); }                    \
    W ulong w_fla_sizeof_##NAME() { return sizeof(FL); }
FLA(node_id, free_memory_list, identity_access_policy)
FLA(node_log2, free_memory_list, log2_access_policy)
FLA(ord_id, ordered_free_memory_list, identity_access_policy)
FLA(ord_log2, ordered_free_memory_list, log2_access_policy)
FLA(small_id, small_free_memory_list, identity_access_policy)
FLA(small_log2, small_free_memory_list, log2_access_policy)
