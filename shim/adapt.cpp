// shim group "adapt": wrappers and storage classes over recording leaf allocators (C08 C09 C13)
#include "hooks.hpp"
#include <foonathan/memory/allocator_storage.hpp>
#include <foonathan/memory/aligned_allocator.hpp>
#include <foonathan/memory/tracking.hpp>
#include <foonathan/memory/segregator.hpp>
#include <foonathan/memory/fallback_allocator.hpp>
#include <foonathan/memory/std_allocator.hpp>
#include <foonathan/memory/memory_resource_adapter.hpp>
#include <foonathan/memory/deleter.hpp>

using namespace foonathan::memory;
using namespace vshim;

#include "leaf.hpp"
struct hook_tracker
{
    void on_node_allocation(void* p, std::size_t s, std::size_t a) noexcept { verif_tracker(0, p, 1, s, a); }
    void on_array_allocation(void* p, std::size_t c, std::size_t s, std::size_t a) noexcept { verif_tracker(1, p, c, s, a); }
    void on_node_deallocation(void* p, std::size_t s, std::size_t a) noexcept { verif_tracker(2, p, 1, s, a); }
    void on_array_deallocation(void* p, std::size_t c, std::size_t s, std::size_t a) noexcept { verif_tracker(3, p, c, s, a); }
};
struct hook_mutex
{
    void lock() noexcept { verif_mutex(1, 1); }
    void unlock() noexcept { verif_mutex(1, 0); }
    bool try_lock() noexcept { verif_mutex(1, 1); return true; }
};

W void w_install_handlers() { install_handlers(); }

// uniform traits-level wrappers for a composition type T living at *o
#define TRAITS(P, T)                                                                                \
    using P##_tr = allocator_traits<T>;                                                             \
    using P##_ct = composable_allocator_traits<T>;                                                  \
    W ulong w_##P##_sizeof() { return sizeof(T); }                                                  \
    W void w_##P##_dtor(void* o) { static_cast<T*>(o)->~T(); }                                     \
    W void* w_##P##_allocate_node(void* o, ulong s, ulong a) { VTRY return P##_tr::allocate_node(*static_cast<T*>(o), s, a); VCATCH(nullptr) } \
    W void* w_##P##_allocate_array(void* o, ulong c, ulong s, ulong a) { VTRY return P##_tr::allocate_array(*static_cast<T*>(o), c, s, a); VCATCH(nullptr) } \
    W void w_##P##_deallocate_node(void* o, void* p, ulong s, ulong a) { P##_tr::deallocate_node(*static_cast<T*>(o), p, s, a); } \
    W void w_##P##_deallocate_array(void* o, void* p, ulong c, ulong s, ulong a) { P##_tr::deallocate_array(*static_cast<T*>(o), p, c, s, a); } \
    W void* w_##P##_try_allocate_node(void* o, ulong s, ulong a) { return P##_ct::try_allocate_node(*static_cast<T*>(o), s, a); } \
    W void* w_##P##_try_allocate_array(void* o, ulong c, ulong s, ulong a) { return P##_ct::try_allocate_array(*static_cast<T*>(o), c, s, a); } \
    W ulong w_##P##_try_deallocate_node(void* o, void* p, ulong s, ulong a) { return P##_ct::try_deallocate_node(*static_cast<T*>(o), p, s, a); } \
    W ulong w_##P##_try_deallocate_array(void* o, void* p, ulong c, ulong s, ulong a) { return P##_ct::try_deallocate_array(*static_cast<T*>(o), p, c, s, a); } \
    W ulong w_##P##_max_node_size(void* o) { return P##_tr::max_node_size(*static_cast<T*>(o)); }  \
    W ulong w_##P##_max_array_size(void* o) { return P##_tr::max_array_size(*static_cast<T*>(o)); } \
    W ulong w_##P##_max_alignment(void* o) { return P##_tr::max_alignment(*static_cast<T*>(o)); }

// allocator_traits used directly on leaves that are not composable: TR = the Allocator type the traits are instantiated
// with, ST = the state type they operate on (allocator_traits<TR>::allocator_type); the try_ wrappers exist only so that
// every composition has the same interface
#define TRAITS_NC(P, TR, ST)                                                                        \
    using P##_tr = allocator_traits<TR>;                                                            \
    static_assert(std::is_same<P##_tr::allocator_type, ST>::value, "state type");                   \
    W ulong w_##P##_sizeof() { return sizeof(ST); }                                                 \
    W void w_##P##_dtor(void* o) { static_cast<ST*>(o)->~ST(); }                                   \
    W void* w_##P##_allocate_node(void* o, ulong s, ulong a) { VTRY return P##_tr::allocate_node(*static_cast<ST*>(o), s, a); VCATCH(nullptr) } \
    W void* w_##P##_allocate_array(void* o, ulong c, ulong s, ulong a) { VTRY return P##_tr::allocate_array(*static_cast<ST*>(o), c, s, a); VCATCH(nullptr) } \
    W void w_##P##_deallocate_node(void* o, void* p, ulong s, ulong a) { P##_tr::deallocate_node(*static_cast<ST*>(o), p, s, a); } \
    W void w_##P##_deallocate_array(void* o, void* p, ulong c, ulong s, ulong a) { P##_tr::deallocate_array(*static_cast<ST*>(o), p, c, s, a); } \
    W void* w_##P##_try_allocate_node(void*, ulong, ulong) { return nullptr; }                      \
    W void* w_##P##_try_allocate_array(void*, ulong, ulong, ulong) { return nullptr; }              \
    W ulong w_##P##_try_deallocate_node(void*, void*, ulong, ulong) { return 0; }                   \
    W ulong w_##P##_try_deallocate_array(void*, void*, ulong, ulong, ulong) { return 0; }           \
    W ulong w_##P##_max_node_size(void* o) { return P##_tr::max_node_size(*static_cast<ST*>(o)); } \
    W ulong w_##P##_max_array_size(void* o) { return P##_tr::max_array_size(*static_cast<ST*>(o)); } \
    W ulong w_##P##_max_alignment(void* o) { return P##_tr::max_alignment(*static_cast<ST*>(o)); }

// 0 allocator_traits defaults: a minimal RawAllocator behind allocator_adapter, and a standard-library style Allocator
// (allocator_traits<stdrec<long>> rebinds to stdrec<char> and forwards byte counts)
using t_min = allocator_adapter<minrec>;
TRAITS_NC(min, t_min, t_min)
W void w_min_ctor(void* o, void* leaf, ulong arg) { (void)leaf; (void)arg; ::new (o) t_min(minrec(1)); }
TRAITS_NC(stdl, stdrec<long>, stdrec<char>)
W void w_stdl_ctor(void* o, void* leaf, ulong arg) { (void)leaf; (void)arg; ::new (o) stdrec<char>(1); }
// 1 direct storage, no mutex
using t_direct = allocator_adapter<rec>;
TRAITS(direct, t_direct)
W void w_direct_ctor(void* o, void* leaf, ulong arg) { (void)leaf; (void)arg; ::new (o) t_direct(rec(1)); }
// 2 reference storage (stateful): refers to a leaf object placed by the harness
using t_ref = allocator_reference<rec>;
TRAITS(ref, t_ref)
W void w_ref_ctor(void* o, void* leaf, ulong arg) { (void)arg; ::new (leaf) rec(1); ::new (o) t_ref(*static_cast<rec*>(leaf)); }
// 3 type-erased reference
using t_any = any_allocator_reference;
TRAITS(any, t_any)
W void w_any_ctor(void* o, void* leaf, ulong arg) { (void)arg; ::new (leaf) rec(1); ::new (o) t_any(*static_cast<rec*>(leaf)); }
// 4 thread_safe_allocator with the harness mutex
using t_ts = thread_safe_allocator<rec, hook_mutex>;
TRAITS(ts, t_ts)
W void w_ts_ctor(void* o, void* leaf, ulong arg) { (void)leaf; (void)arg; ::new (o) t_ts(rec(1)); }
W void w_ts_lock_use(void* o, ulong s, ulong a)
{   // the lock() proxy: allocator accessed for exactly the proxy's lifetime
    auto l = static_cast<t_ts*>(o)->lock();
    void* p = l->allocate_node(s, a);
    l->deallocate_node(p, s, a);
}
W void w_ts_lock_move_use(void* o, ulong s, ulong a)
{   // a proxy that is moved: the mutex stays locked until the *new* owner dies, the moved-from proxy releases nothing
    using proxy = decltype(static_cast<t_ts*>(o)->lock());
    alignas(proxy) unsigned char buf[sizeof(proxy)];
    proxy* q;
    {
        auto l = static_cast<t_ts*>(o)->lock();
        q = ::new (static_cast<void*>(buf)) proxy(static_cast<proxy&&>(l));
    } // moved-from proxy destroyed here
    void* p = (*q)->try_allocate_node(s, a); // noexcept members only: nothing unwinds past the placement-new'd proxy
    if (p)
        (*q)->deallocate_node(p, s, a);
    (void)(*q)->max_node_size();
    q->~proxy();
}
W void w_ts_lock_const_use(const void* o)
{   // lock() on a const storage object
    auto l = static_cast<const t_ts*>(o)->lock();
    (void)l->max_node_size();
}
// 5 aligned_allocator
using t_al = aligned_allocator<rec>;
TRAITS(al, t_al)
W void w_al_ctor(void* o, void* leaf, ulong arg) { (void)leaf; ::new (o) t_al(arg, rec(1)); }
// 6 tracked_allocator
using t_tr = tracked_allocator<hook_tracker, rec>;
TRAITS(tr, t_tr)
W void w_tr_ctor(void* o, void* leaf, ulong arg) { (void)leaf; (void)arg; ::new (o) t_tr(hook_tracker{}, rec(1)); }
// 7 binary_segregator<threshold_segregatable<rec(1)>, rec(2)>
using t_seg = binary_segregator<threshold_segregatable<rec>, recB>;
TRAITS(seg, t_seg)
W void w_seg_ctor(void* o, void* leaf, ulong arg) { (void)leaf; ::new (o) t_seg(threshold_segregatable<rec>(arg, rec(1)), recB(2)); }
// 8 fallback_allocator<rec(1), rec(2)> and nestings
using t_fb = fallback_allocator<rec, recB>;
TRAITS(fb, t_fb)
W void w_fb_ctor(void* o, void* leaf, ulong arg) { (void)leaf; (void)arg; ::new (o) t_fb(rec(1), recB(2)); }
using t_fb2 = fallback_allocator<fallback_allocator<rec, recB>, recC>;
TRAITS(fb2, t_fb2)
W void w_fb2_ctor(void* o, void* leaf, ulong arg) { (void)leaf; (void)arg; ::new (o) t_fb2(t_fb(rec(1), recB(2)), recC(3)); }
using t_fbal = fallback_allocator<aligned_allocator<rec>, recB>;
TRAITS(fbal, t_fbal)
W void w_fbal_ctor(void* o, void* leaf, ulong arg) { (void)leaf; ::new (o) t_fbal(t_al(arg, rec(1)), recB(2)); }
// depth 3: thread_safe<aligned<tracked<rec>>>
using t_d3 = thread_safe_allocator<aligned_allocator<tracked_allocator<hook_tracker, rec>>, hook_mutex>;
TRAITS(d3, t_d3)
W void w_d3_ctor(void* o, void* leaf, ulong arg) { (void)leaf; ::new (o) t_d3(aligned_allocator<t_tr>(arg, t_tr(hook_tracker{}, rec(1)))); }

// ---- std_allocator<T, rec>: allocate(n) / deallocate(p, n)
template <std::size_t S, std::size_t A>
struct alignas(A) blob { char c[S]; };
#define STDALLOC(P, S, A)                                                                           \
    using P##_sa = std_allocator<blob<S, A>, rec>;                                                  \
    W void w_##P##_ctor(void* o, void* leaf) { ::new (leaf) rec(1); ::new (o) P##_sa(*static_cast<rec*>(leaf)); } \
    W void* w_##P##_allocate(void* o, ulong n) { VTRY return static_cast<P##_sa*>(o)->allocate(n); VCATCH(nullptr) } \
    W void w_##P##_deallocate(void* o, void* p, ulong n) { static_cast<P##_sa*>(o)->deallocate(static_cast<blob<S, A>*>(p), n); } \
    W ulong w_##P##_size() { return S; }                                                            \
    W ulong w_##P##_align() { return A; }
STDALLOC(sa1, 1, 1)
STDALLOC(sa3, 3, 1)
STDALLOC(sa24, 24, 8)
STDALLOC(sa48, 48, 16)
W ulong w_sa_equal(void* a, void* b) { return *static_cast<sa24_sa*>(a) == *static_cast<sa24_sa*>(b); }
W void w_sa_copy(void* o, void* from) { ::new (o) sa24_sa(*static_cast<sa24_sa*>(from)); }

// ---- memory_resource_adapter<rec> through the memory_resource interface
using t_mra = memory_resource_adapter<rec>;
W ulong w_mra_sizeof() { return sizeof(t_mra); }
W void w_mra_ctor(void* o) { ::new (o) t_mra(rec(1)); }
W void* w_mra_allocate(void* o, ulong bytes, ulong a) { VTRY return static_cast<memory_resource*>(static_cast<t_mra*>(o))->allocate(bytes, a); VCATCH(nullptr) }
W void w_mra_deallocate(void* o, void* p, ulong bytes, ulong a) { static_cast<memory_resource*>(static_cast<t_mra*>(o))->deallocate(p, bytes, a); }

// ---- memory_resource_allocator over memory_resource_adapter<rec>: RawAllocator -> memory_resource -> RawAllocator
TRAITS_NC(mral, memory_resource_allocator, memory_resource_allocator)
W void w_mral_ctor(void* o, void* leaf, ulong arg)
{
    (void)arg;
    auto* r = ::new (leaf) t_mra(rec(1));
    ::new (o) memory_resource_allocator(r);
}

// ---- deleters
struct base { virtual ~base() { verif_dtor(1); } long x; };
struct big : base { char pad[70000]; };
struct small_d : base { char pad[24]; };
W ulong w_sizeof_big() { return sizeof(big); }
W ulong w_sizeof_small() { return sizeof(small_d); }
template <class D>
static void poly_delete(void* leaf, void* obj)
{
    ::new (leaf) rec(1);
    allocator_deleter<D, rec> d(*static_cast<rec*>(leaf));
    allocator_polymorphic_deleter<base, rec> pd(d);
    pd(static_cast<base*>(static_cast<D*>(obj)));
}
W void w_poly_delete_big(void* leaf, void* obj) { poly_delete<big>(leaf, obj); }
W void w_poly_delete_small(void* leaf, void* obj) { poly_delete<small_d>(leaf, obj); }
template <class D>
static void poly_dealloc(void* leaf, void* obj)
{
    ::new (leaf) rec(1);
    allocator_deallocator<D, rec> d(*static_cast<rec*>(leaf));
    allocator_polymorphic_deallocator<base, rec> pd(d);
    pd(static_cast<base*>(static_cast<D*>(obj)));
}
W void w_poly_dealloc_big(void* leaf, void* obj) { poly_dealloc<big>(leaf, obj); }
W void w_make_obj_small(void* obj) { ::new (obj) small_d(); }
W void w_array_delete(void* leaf, void* arr, ulong n)
{
    ::new (leaf) rec(1);
    allocator_deallocator<blob<24, 8>[], rec> d(*static_cast<rec*>(leaf), n);
    d(static_cast<blob<24, 8>*>(arr));
}
W void w_single_dealloc(void* leaf, void* p)
{
    ::new (leaf) rec(1);
    allocator_deallocator<blob<48, 16>, rec> d(*static_cast<rec*>(leaf));
    d(static_cast<blob<48, 16>*>(p));
}
W ulong w_poly_deleter_big_size(void* leaf)
{
    ::new (leaf) rec(1);
    allocator_deleter<big, rec> d(*static_cast<rec*>(leaf));
    allocator_polymorphic_deleter<base, rec> pd(d);
    return pd.derived_size_;
}
