/* C19: bucket selection of free_list_array<FreeList, AccessPolicy>: the real constructor builds the array for a symbolic
 * maximum node size, then get(size) for a symbolic size 1..max returns a list whose nodes are at least that large
 * (and less than twice as large for power-of-two buckets).  -DFLA=node_log2|ord_log2|small_log2|node_id|ord_id|small_id */
#include "verif.h"
#define PASTE2(a, b) a##b
#define PASTE(a, b) PASTE2(a, b)
#ifndef MAXN
#define MAXN 64
#endif
#ifndef MINEL
#define MINEL 8
#endif
void harness(void)
{
    HAVOC_HEAP();
    uint64_t O = HEAP_BASE, MEM = HEAP_BASE + 32;
    uint64_t mx = nondet_u16(); ASSUME(mx >= MINEL && mx <= MAXN);
    uint64_t lists = PASTE(w_fla_build_, FLA)(O, MEM, HEAP_SIZE - 32, mx);
    ASSERT(lists >= 1 && lists * PASTE(w_fla_sizeof_, FLA)() <= HEAP_SIZE - 32, "the bucket array fits the memory it was given");
    ASSERT(PASTE(w_fla_max_, FLA)(O) >= mx, "C19: max_node_size() of the array covers the requested maximum");
    uint64_t size = nondet_u16(); ASSUME(size >= 1 && size <= mx);
    uint64_t ns = PASTE(w_fla_get_, FLA)(O, size);
    ASSERT(ns >= size, "C19: the bucket chosen for a size has nodes at least that large");
#ifdef LOG2
    { uint64_t s = size < MINEL ? MINEL : size; ASSERT(ns < 2 * s, "C19: power-of-two buckets waste less than half: node size < 2 * max(size, min_element_size)"); }
#else
    ASSERT(ns == (size < MINEL ? MINEL : size), "C19: identity buckets have exactly the requested node size (at least min_element_size)");
#endif
    WITNESS_END();
}
