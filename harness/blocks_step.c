/* Fixed block sources and static / virtual low-level allocators (C01 C03 C05 C12 C16 C18).
 *  -DCASE=1 static_block_allocator  2 virtual_block_allocator  3 static_allocator  4 virtual_memory_allocator
 * States symbolic (how many blocks are out, where the bump pointer is); the OS (mmap/munmap/mprotect/sysconf) is a
 * recording hook that may fail; page size is a constant of the query (-DPAGE, default 32). */
#define HANDLER_STOPS_IF_BAD
#include "hooks_common.h"
#ifndef PAGE
#define PAGE 32
#endif
static uint64_t map_addr, map_len; static int mapped, n_mmap, n_munmap, n_mprotect, os_fail_mmap, os_fail_protect, munmap_bad;
uint64_t verif_page_size(void) { return PAGE; }
uint64_t verif_mmap(uint64_t len)
{
    n_mmap++;
    if (os_fail_mmap || mapped) return ~UINT64_C(0);
    ASSUME(IN_HEAP(HEAP_BASE + 0x80, len));
    mapped = 1; map_addr = HEAP_BASE + 0x80; map_len = len;
    return map_addr;
}
uint32_t verif_munmap(uint64_t p, uint64_t len)
{
    n_munmap++;
    if (len == 0) { munmap_bad++; return (uint32_t)-1; }          /* EINVAL */
    if (!(mapped && p >= map_addr && p + len <= map_addr + map_len)) { munmap_bad++; return (uint32_t)-1; }
    if (p == map_addr && len == map_len) mapped = 0;
    return 0;
}
uint32_t verif_mprotect(uint64_t p, uint64_t len, uint32_t prot)
{
    (void)prot; n_mprotect++;
    if (os_fail_protect && (prot & 3)) return (uint32_t)-1;
    ASSERT(mapped && p >= map_addr && p + len <= map_addr + map_len, "C01: only pages obtained from the OS are committed / decommitted");
    return 0;
}
uint64_t verif_os_alloc(uint64_t size, uint64_t al) { (void)size; (void)al; return 0; }
void verif_os_free(uint64_t p, uint64_t size, uint64_t al) { (void)p; (void)size; (void)al; }

void harness(void)
{
    HAVOC_HEAP();
    w_install_handlers();
    uint64_t O = HEAP_BASE, O2 = HEAP_BASE + 0x20, SCR = HEAP_BASE + 0x40, ST = HEAP_BASE + 0x80;
    CLEAR_EXC();
#if CASE == 1 || CASE == 2
    /* k of n blocks of size bs are out: cur = ST + k*bs, end = ST + n*bs */
    uint64_t bs = (uint64_t)(1 + (nondet_u8() & 1)) * PAGE, n = nondet_u8(), k = nondet_u8();
    ASSUME(n >= 1 && n <= 4 && k <= n && IN_HEAP(ST, n * bs));
#if CASE == 1
#define BA(f) w_sba_##f
#else
#define BA(f) w_vba_##f
    mapped = 1; map_addr = ST; map_len = n * bs;       /* the reservation made by the constructor */
#endif
    BA(set)(O, ST + k * bs, ST + n * bs, bs);
    uint8_t op = nondet_u8(); ASSUME(op < 5);
    if (op == 0) {                                   /* allocate_block */
        os_fail_protect = nondet_u8() & 1;
        uint64_t p = BA(allocate_block)(O, SCR);
        if (k == n || (CASE == 2 && os_fail_protect)) {
            ASSERT(EXC && exc_is(XK_OOFM) && n_oom == 1, "C03: an exhausted fixed block source throws out_of_fixed_memory after calling the handler once");
            ASSERT(BA(cur)(O) == ST + k * bs, "C03: a failed request leaves the source unchanged");
        } else {
            ASSERT(!EXC && p == ST + k * bs && H64(SCR) == bs, "C01: the next block of the storage, of block_size bytes");
            ASSERT(BA(cur)(O) == ST + (k + 1) * bs, "C18: exactly one block consumed");
        }
    } else if (op == 1) {                            /* valid LIFO release */
        ASSUME(k >= 1);
        BA(deallocate_block)(O, ST + (k - 1) * bs, bs);
        ASSERT(n_invptr == 0, "C16: releasing the most recent block is never reported");
        ASSERT(BA(cur)(O) == ST + (k - 1) * bs, "C05: the block is taken back");
    } else if (op == 2) {                            /* out-of-order release */
        uint64_t j = nondet_u8(); ASSUME(k >= 2 && j + 1 < k);
        BA(deallocate_block)(O, ST + j * bs, bs);
        ASSERT(n_invptr >= 1 && inv_ptr == ST + j * bs, "C16: returning a block out of order to a LIFO-only source is reported with the offending pointer");
    } else if (op == 3) {                            /* move construction, then both destructors */
        BA(move_ctor)(O2, O);
        ASSERT(BA(cur)(O2) == ST + k * bs && BA(end)(O2) == ST + n * bs, "C12: the destination owns the storage");
        ASSERT(BA(cur)(O) == 0 && BA(end)(O) == 0, "C12: the source is empty");
        STOP_IS_FAILURE = 1; int mb = munmap_bad;
        BA(dtor)(O);
        ASSERT(munmap_bad == mb, "C12: destroying the moved-from block source makes no failing OS call");
        ASSERT(n_invptr == 0, "C12: and reports nothing");
    } else {                                         /* destructor with all blocks returned */
        ASSUME(k == 0);
        BA(dtor)(O);
#if CASE == 2
        ASSERT(n_munmap == 1 && !mapped && munmap_bad == 0, "C05: the whole reservation is released exactly once");
#endif
    }
#elif CASE == 3
    uint64_t len = nondet_u8(), used = nondet_u8(); ASSUME(len >= 1 && len <= 96 && used <= len && IN_HEAP(ST, len));
    w_sa_set(O, ST + used, ST + len);
    uint64_t size = nondet_u8(), kk = nondet_u8(); ASSUME(kk <= 5);
    uint64_t al = UINT64_C(1) << kk, F = w_fence();
    uint64_t top = ST + used, off = (al - ((top + F) & (al - 1))) & (al - 1);
    int fits = F + off + size + F <= len - used;
    uint64_t mx = w_sa_max_node_size(O);
    ASSERT(mx == len - used, "C18: max_node_size() is what is left of the storage");
    uint64_t p = w_sa_allocate_node(O, size, al);
    if (!fits) { ASSERT(EXC && exc_is(XK_OOFM) && n_oom == 1 && w_sa_cur(O) == top, "C03: exhausted static storage throws out_of_fixed_memory, state unchanged"); }
    else { ASSERT(!EXC && p == top + F + off && (p & (al - 1)) == 0 && p + size + F <= ST + len, "C01/C02: aligned node inside the static storage");
           ASSERT(w_sa_cur(O) == p + size + F, "C18: storage consumed exactly"); }
    if (size > mx) ASSERT(EXC, "C18: a request above max_node_size() never succeeds");
#elif CASE == 4
    uint64_t size = nondet_u8(); ASSUME(size >= 1 && size <= 70);
    uint64_t F = w_fence() ? 1 : 0;
    uint64_t pages = (size + PAGE - 1) / PAGE + (F ? 2 : 1);
    os_fail_mmap = nondet_u8() & 1; os_fail_protect = nondet_u8() & 1;
    uint64_t p = w_vma_allocate_node(size, 8);
    ASSERT(n_mmap == 1, "C09: one reservation per node");
    if (os_fail_mmap || os_fail_protect) ASSERT(EXC && exc_is(XK_OOM) && n_oom == 1, "C03: OS failure becomes out_of_memory");
    else {
        ASSERT(!EXC && map_len == pages * PAGE, "C18: whole pages for the node plus the guard page(s)");
        ASSERT(p == map_addr + (F ? PAGE : 0) && p + size <= map_addr + map_len, "C01: node inside the mapping, behind the front fence page");
        w_vma_deallocate_node(p, size, 8);
        ASSERT(n_munmap == 1 && !mapped && munmap_bad == 0, "C05: the mapping is released whole, once");
    }
#endif
    WITNESS_END();
}
