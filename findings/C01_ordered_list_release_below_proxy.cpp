// ordered_free_memory_list whose object lies BELOW the pool memory: state list {0,2,3}, node 1 live, last_dealloc = (node3, end)
#include <foonathan/memory/detail/free_list.hpp>
#include <cstdio>
#include <new>
#include <cstdlib>
#include <unistd.h>
using namespace foonathan::memory::detail;
alignas(16) static char arena[64 + 8 * 16];
static char* low = arena;                 // list object placed here (low address)
static char* block = arena + 64;          // pool memory above it
int main() {
    alarm(10);
    if (low > block) { std::fprintf(stderr, "layout not as needed\n"); return 0; }
    auto* l = new (low) ordered_free_memory_list(16);
    l->insert(block, 8 * 16);              // nodes 0..7 free
    void* n[8];
    for (int i = 0; i < 8; ++i) n[i] = l->allocate();          // all live, in address order
    for (int i : {0, 2, 3, 5, 6, 7}) l->deallocate(n[i]);      // free {0,2,3,5,6,7}; last_dealloc = 7
    void* arr = l->allocate(3 * 16);                           // takes the run [5,6,7] -> last_dealloc = (node3, end)
    std::fprintf(stderr, "array at node %ld, capacity %zu\n", (static_cast<char*>(arr) - block) / 16, l->capacity());
    l->deallocate(n[1]);                                       // valid release of node 1
    std::fprintf(stderr, "capacity %zu (expected 4)\n", l->capacity());
    // drain and check order
    std::size_t c = l->capacity(); char* prev = nullptr; 
    for (std::size_t i = 0; i < c; ++i) { char* p = static_cast<char*>(l->allocate()); if (prev && p <= prev) { std::fprintf(stderr, "not ordered\n"); return 1; } prev = p; }
    return c == 4 ? 0 : 1;
}
