// shim group "smart": allocate_unique / allocate_unique<T[]> / allocate_shared / joint_ptr + joint_array with an
// element type whose constructors may throw (C20, C11)
#include "leaf.hpp"
#include <foonathan/memory/smart_ptr.hpp>
#include <foonathan/memory/joint_allocator.hpp>

using namespace vshim;
extern "C" {
ulong verif_should_throw(const void* obj, ulong what);   // what: 0 default ctor, 1 copy ctor, 2 move ctor
void verif_constructed(const void* obj);
void verif_destroyed(const void* obj);
void verif_piece(ulong which, const void* p, ulong bytes);
}
struct elem
{
    long v;
    elem() : v(7) { if (verif_should_throw(this, 0)) throw 1; verif_constructed(this); }
    elem(const elem& o) : v(o.v) { if (verif_should_throw(this, 1)) throw 2; verif_constructed(this); }
    elem(elem&& o) : v(o.v) { if (verif_should_throw(this, 2)) throw 3; verif_constructed(this); }
    ~elem() { verif_destroyed(this); }
};
W void w_install_handlers() { install_handlers(); }
W ulong w_sizeof_elem() { return sizeof(elem); }

#ifdef VERIF_NATIVE
#define UTRY try {
#define UCATCH } catch (...) { verif_exc = 1; verif_exc_kind = 5; }
#else
#define UTRY {
#define UCATCH }
#endif
// allocate_unique<elem[]>: create then destroy the owner
W void w_unique_array(void* leaf, ulong n)
{
    ::new (leaf) rec(1);
    UTRY auto p = allocate_unique<elem[]>(*static_cast<rec*>(leaf), n); (void)p; UCATCH
}
W void w_unique_single(void* leaf)
{
    ::new (leaf) rec(1);
    UTRY auto p = allocate_unique<elem>(*static_cast<rec*>(leaf)); (void)p; UCATCH
}
W void w_shared_single(void* leaf)
{
    ::new (leaf) rec(1);
    UTRY auto p = allocate_shared<elem>(*static_cast<rec*>(leaf)); auto q = p; p.reset(); (void)q; UCATCH
}

// ---- joint allocations
struct jt : joint_type<jt>
{
    joint_array<elem> a;
    joint_array<char> b;
    jt(joint tag, ulong n, ulong m) : joint_type<jt>(tag), a(n, *this), b(m, *this)
    {
        verif_piece(0, a.data(), n * sizeof(elem));
        verif_piece(1, b.data(), m);
    }
    jt(joint tag, const jt& other) : joint_type<jt>(tag), a(other.a, *this), b(other.b, *this)
    {
        verif_piece(0, a.data(), a.size() * sizeof(elem));
        verif_piece(1, b.data(), b.size());
    }
};
// second member order: the byte array first, so the element array needs alignment padding inside the joint memory
struct jt2 : joint_type<jt2>
{
    joint_array<char> b;
    joint_array<elem> a;
    jt2(joint tag, ulong n, ulong m) : joint_type<jt2>(tag), b(m, *this), a(n, *this)
    {
        verif_piece(0, a.data(), n * sizeof(elem));
        verif_piece(1, b.data(), m);
    }
};
W void w_joint2_create(void* leaf, ulong additional, ulong n, ulong m)
{
    ::new (leaf) rec(1);
    UTRY auto p = allocate_joint<jt2>(*static_cast<rec*>(leaf), joint_size(additional), n, m); (void)p; UCATCH
}
W ulong w_sizeof_jt2() { return sizeof(jt2); }
W ulong w_alignof_jt2() { return alignof(jt2); }
W ulong w_sizeof_jt() { return sizeof(jt); }
W ulong w_alignof_jt() { return alignof(jt); }
W void w_joint_create(void* leaf, ulong additional, ulong n, ulong m)
{
    ::new (leaf) rec(1);
    UTRY auto p = allocate_joint<jt>(*static_cast<rec*>(leaf), joint_size(additional), n, m); (void)p; UCATCH
}
W void w_joint_alloc_seq(void* leaf, ulong additional, ulong sa, ulong sb, ulong sc, ulong al)
{   // joint_allocator used directly: releasing a piece that is not the last allocation must leave the later piece alone
    ::new (leaf) rec(1);
    UTRY auto p = allocate_joint<jt>(*static_cast<rec*>(leaf), joint_size(additional), 0, 0);
    joint_allocator ja(*p);
    void* A = ja.allocate_node(sa, al);
    void* B = ja.allocate_node(sb, al);
    ja.deallocate_node(A, sa, al);
    void* C = ja.allocate_node(sc, al);
    verif_piece(0, B, sb);
    verif_piece(1, C, sc);
    UCATCH
}
W void w_joint_clone(void* leaf, ulong additional, ulong n, ulong m)
{
    ::new (leaf) rec(1);
    UTRY auto p = allocate_joint<jt>(*static_cast<rec*>(leaf), joint_size(additional), n, m);
    auto q = clone_joint(*static_cast<rec*>(leaf), *p);
    (void)q; UCATCH
}
W void w_joint_move_reset(void* leaf, ulong additional, ulong n, ulong m)
{
    ::new (leaf) rec(1);
    UTRY auto p = allocate_joint<jt>(*static_cast<rec*>(leaf), joint_size(additional), n, m);
    auto q = detail::move(p);
    q.reset();
    UCATCH
}
