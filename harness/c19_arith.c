/* C19: size and alignment arithmetic agrees with the mathematical definitions (full 64-bit symbolic inputs).
 * One obligation group per -DCASE; oracles are definitional (no bit tricks). */
#include "verif.h"

static int is_pow2_def(uint64_t a)
{   /* definition: a = 2^k for some k in 0..63 */
    for (int k = 0; k < 64; ++k) if (a == (UINT64_C(1) << k)) return 1;
    return 0;
}

void harness(void)
{
    uint64_t k = nondet_u64(); ASSUME(k < 64);
    uint64_t a = UINT64_C(1) << k;          /* every power-of-two alignment */
    uint64_t x = nondet_u64();
#if CASE == 1   /* is_valid_alignment <=> power of two */
    ASSERT(w_is_valid_alignment(x) == (uint64_t)is_pow2_def(x), "C19 is_valid_alignment iff power of two");
    ASSERT(w_is_valid_alignment(a) == 1, "C19 every 1<<k is a valid alignment");
    ASSERT(w_is_valid_alignment(0) == 0, "C19 zero is not a valid alignment");
#elif CASE == 2 /* round_up: least multiple >= size */
    uint64_t r = w_round_up(x, a);
    if (x <= UINT64_MAX - (a - 1)) {
        ASSERT(r % a == 0, "C19 round_up result is a multiple of the alignment");
        ASSERT(r >= x, "C19 round_up result is not below the size");
        ASSERT(r - x < a, "C19 round_up result is the least such multiple");
    } else {
        /* the mathematical result 2^64 or more is not representable: wraps to the multiple modulo 2^64 */
        ASSERT(r % a == 0 && r < x, "C19 round_up wraps only when the true result exceeds 64 bits");
    }
#elif CASE == 3 /* align_offset: least non-negative adjustment */
    uint64_t o = w_align_offset(x, a);
    ASSERT(o < a, "C19 align_offset below the alignment");
    ASSERT(((x + o) & (a - 1)) == 0 , "C19 address plus align_offset is aligned");
    ASSERT(((x % a) == 0) == (o == 0), "C19 align_offset zero iff already aligned");
    ASSERT(w_align_offset_ptr(x, a) == o, "C19 pointer overload agrees with the integer overload");
    ASSERT(w_is_aligned(x, a) == (uint64_t)(x % a == 0), "C19 is_aligned iff address multiple of alignment");
#elif CASE == 4 /* alignment_for: largest power of two dividing size, capped at max_alignment */
    ASSUME(x != 0);
    uint64_t f = w_alignment_for(x), M = w_max_alignment();
    ASSERT(is_pow2_def(f), "C19 alignment_for is a power of two");
    ASSERT(x % f == 0, "C19 alignment_for divides the size");
    ASSERT(f <= M, "C19 alignment_for capped at max_alignment");
    ASSERT(f == M || x % (2 * f) != 0, "C19 alignment_for is the largest such power of two");
    ASSERT(M == 16, "C19 max_alignment is alignof(max_align_t) on this ABI");
#elif CASE == 5 /* ilog2 floor / ceil */
    ASSUME(x != 0);
    uint64_t l = w_ilog2(x), c = w_ilog2_ceil(x), b = w_ilog2_base(x);
    ASSERT(l < 64 && (x >> l) == 1, "C19 ilog2 is floor(log2 x): 2^l <= x < 2^(l+1)");
    ASSERT(b == l + 1, "C19 ilog2_base is the bit length");
    ASSERT(c <= 64, "C19 ilog2_ceil in range");
    if (c < 64) ASSERT((UINT64_C(1) << c) >= x, "C19 2^ilog2_ceil >= x");
    else ASSERT(x > (UINT64_C(1) << 63), "C19 ilog2_ceil 64 only above 2^63");
    if (c > 0) ASSERT((UINT64_C(1) << (c - 1)) < x, "C19 2^(ilog2_ceil-1) < x");
    else ASSERT(x == 1, "C19 ilog2_ceil 0 only for 1");
    ASSERT(w_is_power_of_two(x) == (uint64_t)is_pow2_def(x), "C19 is_power_of_two iff power of two (x != 0)");
#elif CASE == 6 /* log2 / identity access policies */
    ASSUME(x != 0 && x <= (UINT64_C(1) << 63));
    uint64_t i = w_log2_index_from_size(x);
    uint64_t s = w_log2_size_from_index(i);
    ASSERT(s >= x, "C19 log2 bucket size is at least the requested size");
    ASSERT(x == 1 || s / 2 < x, "C19 log2 bucket size is less than twice the requested size");
    ASSERT(w_identity_size_from_index(w_identity_index_from_size(x)) == x, "C19 identity policy round trip");
#else
#error "CASE"
#endif
    WITNESS_END();
}
