/* Real libstdc++ containers (vector / forward_list / list of long) on std_allocator<long, leaf> over two recording leaf
 * allocators A and B (C10).  Script of STEPS operations on two containers C1 (bound to A) and C2 (bound to A or B, the
 * solver's choice); the operation codes are constants of the query (-DSEQ, base 8, enumerated by the registry), element
 * values and the binding are symbolic.  Ledger: every leaf release must match an outstanding allocation of the SAME leaf
 * with the same kind, count, size, alignment; after both containers are destroyed nothing is outstanding.
 * ops: 0 push C1, 1 push C2, 2 pop C1, 3 clear C1, 4 C2 = C1 (copy), 5 C2 = move(C1), 6 swap(C1, C2), 7 C1 = C2 (copy) */
#include "hooks_common.h"
#define PASTE2(a, b, c) a##b##c
#define PASTE(a, b, c) PASTE2(a, b, c)
#define CF(f) PASTE(w_, CONTK, _##f)
#ifndef STEPS
#define STEPS 2
#endif
#ifndef SEQ
#define SEQ 0
#endif
#define NA 12
struct al { uint64_t id, kind, count, size, align, ptr; int out; };
static struct al lgr[NA]; static int nal, bad_release, n_rel;
static uint64_t next_ptr = HEAP_BASE + 0x100;
uint64_t verif_leaf_alloc(uint64_t id, uint64_t kind, uint64_t count, uint64_t size, uint64_t align)
{
    ASSUME(nal < NA && count * size <= 64);
    uint64_t p = next_ptr; next_ptr += 64;
    ASSUME(IN_HEAP(p, 64));
    lgr[nal].id = id; lgr[nal].kind = kind & 1; lgr[nal].count = count; lgr[nal].size = size; lgr[nal].align = align; lgr[nal].ptr = p; lgr[nal].out = 1; nal++;
    return p;
}
void verif_leaf_dealloc(uint64_t id, uint64_t kind, uint64_t p, uint64_t count, uint64_t size, uint64_t align)
{
    n_rel++;
    int f = -1;
    for (int i = 0; i < NA; ++i) if (i < nal && lgr[i].out && lgr[i].ptr == p) f = i;
    ASSERT(f >= 0, "C10: memory released by a container was handed out by a leaf and not yet released");
    if (f < 0) { bad_release++; return; }
    ASSERT(lgr[f].id == id, "C10: memory is given back to the allocator object it was obtained from");
    ASSERT(lgr[f].kind == (kind & 1) && lgr[f].size == size && lgr[f].align == align && (lgr[f].kind == 0 || lgr[f].count == count), "C09/C10: released with the kind, count, size and alignment it was requested with");
    lgr[f].out = 0;
}
uint64_t verif_leaf_try_dealloc(uint64_t id, uint64_t kind, uint64_t p, uint64_t count, uint64_t size, uint64_t align) { verif_leaf_dealloc(id, kind, p, count, size, align); return 1; }
uint64_t verif_leaf_max(uint64_t id, uint64_t which) { (void)id; (void)which; return ~UINT64_C(0) >> 1; }

void harness(void)
{
    HAVOC_HEAP();
    w_install_handlers();
    uint64_t LA = HEAP_BASE, LB = HEAP_BASE + 0x10, C1 = HEAP_BASE + 0x20, C2 = HEAP_BASE + 0x60, C3 = HEAP_BASE + 0xa0;
    ASSERT(CF(sizeof)() <= 0x40, "container object fits the harness slot");
    w_leaf_ctor(LA, 1); w_leaf_ctor(LB, 2);
    uint8_t b2 = nondet_u8() & 1;
    CF(ctor)(C1, LA);
    CF(ctor)(C2, b2 ? LB : LA);
    int64_t sum1 = 0, sum2 = 0; uint64_t n1 = 0, n2 = 0;     /* reference contents: sums and sizes */
    int64_t vals1[STEPS + 1], vals2[STEPS + 1]; (void)vals1; (void)vals2;
    static const int pow8[5] = {1, 8, 64, 512, 4096};
    for (int step = 0; step < STEPS; ++step) {
        int op = (SEQ / pow8[step]) % 8;
        int64_t v = (int64_t)(int8_t)nondet_u8();
        CLEAR_EXC();
        if (op == 0) { CF(push)(C1, v); sum1 += v; n1++; }
        else if (op == 1) { CF(push)(C2, v); sum2 += v; n2++; }
        else if (op == 2) { if (n1 > 0) { int64_t before = CF(sum)(C1); CF(pop)(C1); sum1 = CF(sum)(C1); n1--; (void)before; } }
        else if (op == 3) { CF(clear)(C1); sum1 = 0; n1 = 0; }
        else if (op == 4) { CF(copy_assign)(C2, C1); sum2 = sum1; n2 = n1; }
        else if (op == 5) { CF(move_assign)(C2, C1); sum2 = sum1; n2 = n1; sum1 = CF(sum)(C1); n1 = CF(size)(C1); }
        else if (op == 6) { CF(swap)(C1, C2); int64_t t = sum1; sum1 = sum2; sum2 = t; uint64_t tn = n1; n1 = n2; n2 = tn; }
        else { CF(copy_assign)(C1, C2); sum1 = sum2; n1 = n2; }
        ASSERT(!EXC, "no exception: the leaves never fail in this harness");
        ASSERT(CF(size)(C1) == n1 && CF(size)(C2) == n2, "C10: container sizes as a std::allocator container would have");
        ASSERT(CF(sum)(C1) == sum1 && CF(sum)(C2) == sum2, "C10: container contents preserved by the operation");
    }
    /* a copy and a move constructed third container, then everything is destroyed */
    CF(copy_ctor)(C3, C2);
    ASSERT(CF(sum)(C3) == sum2 && CF(size)(C3) == n2, "C10: copy construction copies the elements");
    CF(dtor)(C3);
    CF(move_ctor)(C3, C1);
    ASSERT(CF(sum)(C3) == sum1 && CF(size)(C3) == n1, "C10: move construction takes the elements");
    CF(dtor)(C3); CF(dtor)(C1); CF(dtor)(C2);
    for (int i = 0; i < NA; ++i) if (i < nal) ASSERT(!lgr[i].out, "C10: after destruction of all containers every piece of memory went back to its allocator");
    ASSERT(bad_release == 0, "C10: no foreign or double release");
#ifdef NODE_CONST
    /* a pool created with X_node_size<T>::value can serve the container: every node request is at most that large */
    for (int i = 0; i < NA; ++i) if (i < nal && lgr[i].kind == 0) ASSERT(lgr[i].size <= NODE_CONST(), "C10: the container's node request does not exceed the library's X_node_size<T> constant");
#endif
    WITNESS_END();
}
