/* insert_chunks() of src/detail/small_free_list.cpp (anonymous namespace; reached through shim group "sflk", which compiles
 * the real source file into its own unit): one call from an ARBITRARY valid chunk ring (C01 C04).
 * Pre-state: NSLOT address-ordered slots; any subset of them is on the ring (doubly linked through the list's base chunk,
 * ascending); a run of 1..RMAX interconnected new chunks occupies consecutive slots of one gap (a block is contiguous
 * memory, so no existing chunk lies inside it).  The base chunk lies below or above all slots.
 * Oracle: afterwards the ring lists exactly the old and the new chunks in ascending address order and EVERY backward
 * link mirrors the forward link; nothing but prev/next words was written. */
#include "verif.h"
#ifndef NSLOT
#define NSLOT 6
#endif
#ifndef RMAX
#define RMAX 3
#endif
#define SL 32

void harness(void)
{
    HAVOC_HEAP();
    uint64_t OP = w_k_off_prev(), ON = w_k_off_next();
    ASSERT(w_k_chunk_base_size() <= SL, "harness slot covers a chunk_base");
    uint8_t hi = nondet_u8() & 1;                      /* base chunk below or above the slots */
    uint64_t S0 = HEAP_BASE + (hi ? 0 : SL), base = hi ? HEAP_BASE + NSLOT * SL : HEAP_BASE;
    ASSUME(IN_HEAP(HEAP_BASE, (NSLOT + 1) * SL));
    uint8_t st[NSLOT];
    uint8_t s = nondet_u8(), r = nondet_u8();
    ASSUME(r >= 1 && r <= RMAX && s < NSLOT && s + r <= NSLOT);
    for (int i = 0; i < NSLOT; ++i) {
        st[i] = nondet_u8() & 1;
        if (i >= s && i < s + r) st[i] = 2;
    }
    /* ring over the existing chunks */
    uint64_t prev = base;
    for (int i = 0; i < NSLOT; ++i) if (st[i] == 1) {
        uint64_t c = S0 + i * SL;
        HS64(prev + ON, c); HS64(c + OP, prev); prev = c;
    }
    HS64(prev + ON, base); HS64(base + OP, prev);
    /* the new run: interconnected, outer links arbitrary (left as havoc) */
    uint64_t begin = S0 + s * SL, end = S0 + (s + r - 1) * SL;
    for (int i = 0; i < NSLOT; ++i) if (st[i] == 2 && i + 1 < NSLOT && st[i + 1] == 2) {
        uint64_t c = S0 + i * SL;
        HS64(c + ON, c + SL); HS64(c + SL + OP, c);
    }
    uint64_t wa = HEAP_BASE + (uint64_t)nondet_u8(); ASSUME(IN_HEAP(wa, 1));
    { uint64_t o = (wa - HEAP_BASE) % SL; ASSUME(!(o >= OP && o < OP + 8) && !(o >= ON && o < ON + 8)); }
    uint8_t wv = H8(wa);

    w_insert_chunks(base, begin, end);

    prev = base;
    uint64_t cur = H64(base + ON);
    for (int i = 0; i < NSLOT; ++i) if (st[i] != 0) {
        uint64_t c = S0 + i * SL;
        ASSERT(cur == c, "Inv: chunk ring lists old and new chunks in ascending address order (forward links)");
        ASSERT(H64(c + OP) == prev, "Inv: chunk ring is doubly linked (every backward link mirrors the forward link)");
        prev = c; cur = H64(c + ON);
    }
    ASSERT(cur == base, "Inv: chunk ring closes at base_");
    ASSERT(H64(base + OP) == prev, "Inv: base_.prev is the last chunk");
    ASSERT(H8(wa) == wv, "insert_chunks writes only prev/next words");
    WITNESS_END();
}
