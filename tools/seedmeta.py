#!/usr/bin/env python3
"""merge confirm.json (tools/seedconfirm.py) and result-<tier>.json (tools/seedrun.py) of a seeded change into its meta.json
usage: seedmeta.py <seed> <property> <what it needs to manifest> [note]"""
import sys, os, json
seed, prop, needs = sys.argv[1:4]; note = sys.argv[4] if len(sys.argv) > 4 else None
d = os.path.join('/verif/seeded', seed)
mp = os.path.join(d, 'meta.json')
meta = json.load(open(mp)) if os.path.exists(mp) else {}
meta.update(id=seed, breaks_property=prop, needs_to_manifest=needs, source='independent sub-agent given only the property text and a scratch worktree')
cp = os.path.join(d, 'confirm.json')
if os.path.exists(cp):
    c = json.load(open(cp)); meta['confirmed_by_me'] = {k: v for k, v in c.items() if not k.endswith('_out')}; os.remove(cp)
meta['what_i_ran'] = ['tools/seedconfirm.py in a scratch worktree: git apply patch.diff, rebuild, unedited ctest suite (passes), demo.cpp on clean tree (exit 0) and on changed tree (non-zero)',
                      'tools/seedrun.py: git -C /repo apply patch.diff; ./check <property> --tier quick; git -C /repo checkout -- .']
caught, missed = {}, []
for f in sorted(os.listdir(d)):
    if f.startswith('result-') and f.endswith('.json'):
        for p, r in json.load(open(os.path.join(d, f))).items():
            if r['violations']: caught[p] = dict(violations=r['violations'], first_jobs=r['jobs'][:3])
            else: missed.append(p)
        os.remove(os.path.join(d, f))
meta['caught_by'] = caught; meta['missed_by'] = [p for p in missed if p not in caught]
meta.pop('status', None)
if not caught: meta['status'] = 'MISSED'
if note: meta['note'] = note
elif caught: meta.pop('note', None)
json.dump(meta, open(mp, 'w'), indent=1)
print(seed, 'caught by', sorted(caught), 'missed by', meta['missed_by'])
