/* Adapters over recording leaf allocators: one request through the wrapper, then its matching release (C08 C09 C13).
 *   -DCOMP=direct|ref|any|ts|al|tr|seg|fb|fb2|fbal|d3   -DAPI=0 throwing / 1 composable   -DKINDSEL=0 node / 1 array
 * Symbolic: size, count, alignment (any power of two <= 64), the wrapper's constructor argument (min alignment / segregator
 * threshold), the leaf maxima, whether each leaf allocation succeeds, which leaf owns a pointer.  Oracle: one downstream
 * request per upstream request, at least the requested bytes, alignment not smaller; the release reaches the same
 * leaf exactly once with the identical (kind, count, size, alignment, pointer); tracker sees each successful
 * operation once; the mutex is held whenever a leaf runs and released afterwards (also on the exception path). */
#include "hooks_common.h"

#define PASTE2(a, b, c) a##b##c
#define PASTE(a, b, c) PASTE2(a, b, c)
#define WF(f) PASTE(w_, COMP, _##f)
#ifndef API
#define API 0
#endif
#ifndef KINDSEL
#define KINDSEL 0
#endif
#define LOGN 6

struct call { uint64_t id, kind, count, size, align, ptr; int dealloc; };
static struct call lg[LOGN]; static int nlog;
static uint64_t mx[4][3];                 /* leaf maxima: node size, array size, alignment */
static int mutex_held, n_lock, n_unlock, mutex_used;
static int n_track[4]; static uint64_t tr_ptr[4], tr_cnt[4], tr_size[4], tr_al[4];
static uint64_t owner_of_ptr;              /* which leaf served the live allocation */
static uint64_t next_ptr = HEAP_BASE + 0x80;

static int constructed;          /* the lock discipline applies to the forwarding members, not to the constructor (which may query max_alignment() in assertion builds) */
static void leaf_enter(void)
{
#ifdef EXPECT_MUTEX
    if (constructed) ASSERT(mutex_held == 1, "C13: the wrapped allocator runs only while the mutex is held");
#endif
}
uint64_t verif_leaf_alloc(uint64_t id, uint64_t kind, uint64_t count, uint64_t size, uint64_t align)
{
    leaf_enter();
    uint64_t p = 0;
    if (nondet_u8() != 0) { p = next_ptr; next_ptr += 0x40; }          /* success or failure, solver's choice */
    if (nlog < LOGN) { lg[nlog].id = id; lg[nlog].kind = kind; lg[nlog].count = count; lg[nlog].size = size; lg[nlog].align = align; lg[nlog].ptr = p; lg[nlog].dealloc = 0; nlog++; }
    if (p) owner_of_ptr = id;
    return p;
}
void verif_leaf_dealloc(uint64_t id, uint64_t kind, uint64_t p, uint64_t count, uint64_t size, uint64_t align)
{
    leaf_enter();
    if (nlog < LOGN) { lg[nlog].id = id; lg[nlog].kind = kind; lg[nlog].count = count; lg[nlog].size = size; lg[nlog].align = align; lg[nlog].ptr = p; lg[nlog].dealloc = 1; nlog++; }
}
uint64_t verif_leaf_try_dealloc(uint64_t id, uint64_t kind, uint64_t p, uint64_t count, uint64_t size, uint64_t align)
{
    leaf_enter();
    if (id != owner_of_ptr) return 0;        /* a composable leaf recognises exactly its own memory */
    if (nlog < LOGN) { lg[nlog].id = id; lg[nlog].kind = kind; lg[nlog].count = count; lg[nlog].size = size; lg[nlog].align = align; lg[nlog].ptr = p; lg[nlog].dealloc = 1; nlog++; }
    return 1;
}
uint64_t verif_leaf_max(uint64_t id, uint64_t which) { leaf_enter(); return mx[id & 3][which]; }
void verif_tracker(uint64_t what, uint64_t p, uint64_t c, uint64_t s, uint64_t a) { n_track[what]++; tr_ptr[what] = p; tr_cnt[what] = c; tr_size[what] = s; tr_al[what] = a; }
void verif_mutex(uint64_t id, uint64_t lock)
{
    (void)id; mutex_used = 1;
    if (lock) { ASSERT(!mutex_held, "C13: mutex is not locked twice"); mutex_held = 1; n_lock++; }
    else { ASSERT(mutex_held, "C13: unlock only while held"); mutex_held = 0; n_unlock++; }
}
void verif_dtor(uint64_t id) { (void)id; }

static int is_pow2(uint64_t a) { return a != 0 && (a & (a - 1)) == 0; }

void harness(void)
{
    HAVOC_HEAP();
    w_install_handlers();
    uint64_t O = HEAP_BASE, LEAF = HEAP_BASE + 0x60;
    ASSERT(WF(sizeof)() <= 0x60, "wrapper object fits the harness slot");
    for (int i = 1; i < 4; ++i) for (int j = 0; j < 3; ++j) mx[i][j] = nondet_u64();
    uint64_t arg = nondet_u8();
#ifdef MRA_BOUNDS
    ASSUME(mx[1][0] >= 1 && mx[1][0] <= 4096);      /* memory_resource_adapter divides by max_node_size(): bounded for the solver */
#endif
#if defined(NEED_POW2_ARG)
    { uint64_t k = nondet_u8(); ASSUME(k <= 6); arg = UINT64_C(1) << k; }
#endif
    WF(ctor)(O, LEAF, arg);
    constructed = 1;
    uint64_t size = nondet_u16(), count = nondet_u8(), k = nondet_u8();
    ASSUME(size >= 1 && count >= 1 && count <= 8 && k <= 6);
#ifdef STD_LEAF
    ASSUME(k <= 4);       /* a standard-library style Allocator serves fundamental alignments only (allocator_traits::max_alignment) */
#endif
    uint64_t al = UINT64_C(1) << k;
    nlog = 0;
    CLEAR_EXC();
    uint64_t p;
#if API == 0 && KINDSEL == 0
    p = WF(allocate_node)(O, size, al);
#elif API == 0 && KINDSEL == 1
    p = WF(allocate_array)(O, count, size, al);
#elif API == 1 && KINDSEL == 0
    p = WF(try_allocate_node)(O, size, al);
#else
    p = WF(try_allocate_array)(O, count, size, al);
#endif
    ASSERT(mutex_held == 0 && n_lock == n_unlock, "C13: mutex released after the call, also when it threw");
#ifdef EXPECT_MUTEX
    ASSERT(n_lock >= 1, "C13: the forwarding member took the lock");
#endif
#if API == 1
    ASSERT(!EXC, "C03: composable allocation never throws");
#endif
    uint64_t want_bytes = KINDSEL ? count * size : size;
    /* successful downstream allocations in the log */
    int nsucc = 0, si = -1, nfail = 0;
    for (int i = 0; i < LOGN; ++i) if (i < nlog && !lg[i].dealloc) { if (lg[i].ptr) { nsucc++; si = i; } else nfail++; }
    if (EXC || p == 0) {
        ASSERT(nsucc == 0, "C09: a failed request left no downstream allocation behind");
        ASSERT(n_track[0] + n_track[1] == 0, "C09: tracker sees nothing for a failed allocation");
    } else {
        ASSERT(nsucc == 1, "C09: exactly one downstream allocation serves one upstream request");
#ifndef MULTI_LEAF
        ASSERT(nfail == 0, "C09: single-leaf wrappers issue exactly one downstream request");
#endif
        struct call a = lg[si < 0 ? 0 : si];
        ASSERT(a.ptr == p, "C09: the wrapper returns the downstream pointer");
        ASSERT(a.count * a.size >= want_bytes, "C09: downstream request covers at least the requested bytes");
        ASSERT(a.align >= al, "C09: downstream alignment is not smaller than requested");
        ASSERT(is_pow2(a.align), "C09: downstream alignment is a power of two");
#ifdef EXACT_SHAPE
        ASSERT((a.kind & 1) == KINDSEL && a.size == size && (KINDSEL == 0 || a.count == count), "C09: request shape (node/array, count, size) forwarded unchanged");
#endif
#ifdef HAS_TRACKER
        ASSERT(n_track[KINDSEL] == 1 && n_track[1 - KINDSEL] == 0, "C09: tracker sees the successful allocation exactly once, with the right kind");
        ASSERT(tr_ptr[KINDSEL] == p && tr_size[KINDSEL] == size, "C09: tracker is told the pointer and size");
#endif
#if API == 1
        /* C08: a pointer no leaf recognises is refused, nothing is released, the tracker hears nothing */
        { uint64_t keep_owner = owner_of_ptr; int lb = nlog; owner_of_ptr = 99;
          uint64_t foreign = HEAP_BASE + 0x40;
#if KINDSEL == 0
          uint64_t r0 = WF(try_deallocate_node)(O, foreign, size, al);
#else
          uint64_t r0 = WF(try_deallocate_array)(O, foreign, count, size, al);
#endif
          ASSERT(r0 == 0, "C08: try_deallocate of memory no sub-allocator owns returns false");
          for (int i = 0; i < LOGN; ++i) if (i >= lb && i < nlog) ASSERT(!lg[i].dealloc, "C08: a refused release releases nothing");
          ASSERT(n_track[2] + n_track[3] == 0, "C09: the tracker is not told about a release that did not happen");
          ASSERT(mutex_held == 0 && n_lock == n_unlock, "C13: mutex released after a refused release");
          owner_of_ptr = keep_owner; }
#endif
        /* matching release through the same interface */
        int before = nlog;
#if API == 0 && KINDSEL == 0
        WF(deallocate_node)(O, p, size, al);
        uint64_t ok = 1;
#elif API == 0 && KINDSEL == 1
        WF(deallocate_array)(O, p, count, size, al);
        uint64_t ok = 1;
#elif API == 1 && KINDSEL == 0
        uint64_t ok = WF(try_deallocate_node)(O, p, size, al);
#else
        uint64_t ok = WF(try_deallocate_array)(O, p, count, size, al);
#endif
        ASSERT(ok == 1, "C08: composable release of the allocator's own memory succeeds");
        int nd = 0, di = -1;
        for (int i = 0; i < LOGN; ++i) if (i >= before && i < nlog && lg[i].dealloc) { nd++; di = i; }
        ASSERT(nd == 1, "C09: the release reaches a leaf exactly once");
        struct call d = lg[di < 0 ? 0 : di];
        ASSERT(d.id == a.id, "C08/C09: the release goes to the leaf that served the allocation");
        ASSERT((d.kind & 1) == (a.kind & 1), "C09: released as the same kind (node/array) it was allocated as");
        ASSERT(d.ptr == a.ptr && d.size == a.size && d.align == a.align && ((a.kind & 1) == 0 || d.count == a.count), "C09: released with the identical count, size, alignment and pointer of the underlying request");
#ifdef HAS_TRACKER
        ASSERT(n_track[2 + KINDSEL] == 1 && n_track[3 - KINDSEL] == 0, "C09: tracker sees the release exactly once");
#endif
        ASSERT(mutex_held == 0 && n_lock == n_unlock, "C13: mutex released after the release");
    }
    /* size queries are forwarding members too */
#ifdef TRAITS_DEFAULTS
    ASSERT(WF(max_node_size)(O) == ~UINT64_C(0) && WF(max_array_size)(O) == ~UINT64_C(0) && WF(max_alignment)(O) == 16, "C18: allocator_traits defaults for a leaf without size queries: no size limit, fundamental alignment");
#endif
    (void)WF(max_node_size)(O); (void)WF(max_array_size)(O); (void)WF(max_alignment)(O);
    ASSERT(mutex_held == 0 && n_lock == n_unlock, "C13: mutex released after the size queries");
#ifdef LOCK_PROXY
    { int l0 = n_lock; w_ts_lock_use(O, 8, 8);
      ASSERT(n_lock == l0 + 1 && mutex_held == 0 && n_lock == n_unlock, "C13: the lock() proxy holds the mutex for exactly its lifetime"); }
    { int l0 = n_lock; w_ts_lock_move_use(O, 8, 8);
      ASSERT(n_lock == l0 + 1 && mutex_held == 0 && n_lock == n_unlock, "C13: a moved lock() proxy keeps the mutex until its new owner is destroyed, and releases it once"); }
    { int l0 = n_lock; w_ts_lock_const_use(O);
      ASSERT(n_lock == l0 + 1 && mutex_held == 0 && n_lock == n_unlock, "C13: lock() on a const storage holds the mutex for exactly the proxy's lifetime"); }
#endif
#ifndef EXPECT_MUTEX
    ASSERT(!mutex_used, "C13: allocators without a mutex type take no lock");
#endif
    WITNESS_END();
}
