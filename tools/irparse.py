#!/usr/bin/env python3
"""Parser for the subset of LLVM-14 textual IR that clang++ -O1 emits for
foonathan/memory and the verification shims.  Anything not understood raises
IRError naming the offending text; nothing is skipped silently."""
import re, sys

class IRError(Exception):
    pass

TOK = re.compile(r'''
    (?P<ws>\s+)
  | (?P<cstr>c"(?:[^"\\]|\\[0-9A-Fa-f]{2}|\\\\)*")
  | (?P<str>"(?:[^"\\]|\\.)*")
  | (?P<local>%(?:"(?:[^"\\]|\\.)*"|[-a-zA-Z$._0-9]+))
  | (?P<global>@(?:"(?:[^"\\]|\\.)*"|[-a-zA-Z$._0-9]+))
  | (?P<comdat>\$(?:"(?:[^"\\]|\\.)*"|[-a-zA-Z$._0-9]+))
  | (?P<meta>![-a-zA-Z$._0-9]*)
  | (?P<attr>\#[0-9]+)
  | (?P<hex>0x[KLMHR]?[0-9A-Fa-f]+)
  | (?P<float>-?[0-9]+\.[0-9]*(?:[eE][-+]?[0-9]+)?)
  | (?P<int>-?[0-9]+)
  | (?P<word>[a-zA-Z_][a-zA-Z0-9_.]*)
  | (?P<dots>\.\.\.)
  | (?P<punct><\{|\}>|[()\[\]{}<>,=*:|])
''', re.X)

def tokenize(s):
    out = []
    pos = 0
    n = len(s)
    while pos < n:
        if s[pos] == ';':      # comment to end of line
            e = s.find('\n', pos)
            pos = n if e < 0 else e
            continue
        m = TOK.match(s, pos)
        if not m:
            raise IRError('cannot tokenize at: ' + s[pos:pos+60])
        k = m.lastgroup
        if k != 'ws':
            out.append((k, m.group(k)))
        pos = m.end()
    return out

def unq(name):
    """strip sigil and quotes: %"a b" -> a b"""
    n = name[1:]
    if n.startswith('"'):
        n = n[1:-1]
    return n

PARAM_ATTRS = {
 'noundef','nonnull','nocapture','readonly','writeonly','readnone','zeroext','signext','noalias',
 'returned','immarg','inreg','nofree','nest','swiftself','swifterror','noreturn','nounwind',
 'nobuiltin','builtin','cold','inlinehint','alwaysinline','noinline','optsize','minsize',
 'mustprogress','willreturn','nosync','norecurse','uwtable','speculatable','convergent',
 'allocsize','nonlazybind','naked','returns_twice','nomerge','noduplicate','nocallback',
 'argmemonly','inaccessiblememonly','inaccessiblemem_or_argmemonly','ssp','sspstrong','sspreq',
 'tail','musttail','notail','fastcc','ccc','coldcc','dso_local','dso_preemptable',
 'local_unnamed_addr','unnamed_addr','internal','private','linkonce_odr','weak_odr','weak',
 'linkonce','external','available_externally','common','appending','extern_weak','hidden',
 'protected','default','comdat','thread_local','externally_initialized','nsw','nuw','exact',
 'inbounds','volatile','hot','sanitize_address','nocf_check','shadowcallstack','strictfp',
 'disable_sanitizer_instrumentation', 'mustprogress','noprofile','memory',
}
PAREN_ATTRS = {'align','dereferenceable','dereferenceable_or_null','sret','byval','byref',
               'preallocated','inalloca','elementtype','allocsize','alignstack','vscale_range','uwtable'}

class P:
    """token cursor"""
    def __init__(self, toks, src=''):
        self.t = toks; self.i = 0; self.src = src
    def peek(self, k=0):
        j = self.i + k
        return self.t[j] if j < len(self.t) else ('eof', '')
    def next(self):
        x = self.peek(); self.i += 1; return x
    def at(self, v):
        return self.peek()[1] == v
    def accept(self, v):
        if self.peek()[1] == v:
            self.i += 1; return True
        return False
    def expect(self, v):
        x = self.next()
        if x[1] != v:
            raise IRError('expected %r got %r in: %s' % (v, x[1], self.src[:300]))
    def eof(self):
        return self.i >= len(self.t)
    def skip_attrs(self):
        """skip parameter / function attributes; returns the set skipped (with sret/byval types)"""
        seen = {}
        while True:
            k, v = self.peek()
            if k == 'attr':
                seen.setdefault('groups', []).append(v); self.i += 1; continue
            if k == 'word' and v in PAREN_ATTRS:
                self.i += 1
                if self.accept('('):
                    if v in ('sret', 'byval', 'byref', 'elementtype', 'preallocated', 'inalloca'):
                        seen[v] = parse_type(self)
                        self.expect(')')
                    else:
                        depth = 1
                        while depth:
                            x = self.next()[1]
                            if x == '(': depth += 1
                            elif x == ')': depth -= 1
                elif v == 'align':
                    seen['align'] = int(self.next()[1])
                else:
                    seen[v] = True
                continue
            if k == 'word' and v in PARAM_ATTRS:
                seen[v] = True; self.i += 1; continue
            if k == 'str' and self.peek(1)[1] == '=':   # "key"="value"
                self.i += 3; continue
            if k == 'str':
                self.i += 1; continue
            break
        return seen

# ---------------------------------------------------------------- types
def parse_type(p):
    k, v = p.next()
    if k == 'word':
        if re.fullmatch(r'i[0-9]+', v): t = ('int', int(v[1:]))
        elif v == 'void': t = ('void',)
        elif v == 'float': t = ('fp', 32)
        elif v == 'double': t = ('fp', 64)
        elif v == 'half': t = ('fp', 16)
        elif v == 'x86_fp80': t = ('fp', 80)
        elif v == 'label': t = ('label',)
        elif v == 'metadata': t = ('metadata',)
        elif v == 'token': t = ('token',)
        elif v == 'opaque': t = ('opaque',)
        elif v == 'ptr': t = ('ptr', ('int', 8))
        else: raise IRError('unknown type word %r in %s' % (v, p.src[:200]))
    elif k == 'local':
        t = ('named', unq(v))
    elif v == '{':
        fs = []
        if not p.accept('}'):
            while True:
                fs.append(parse_type(p))
                if p.accept('}'): break
                p.expect(',')
        t = ('struct', tuple(fs), False)
    elif v == '<{':
        fs = []
        if not p.accept('}>'):
            while True:
                fs.append(parse_type(p))
                if p.accept('}>'): break
                p.expect(',')
        t = ('struct', tuple(fs), True)
    elif v == '[':
        n = int(p.next()[1]); p.expect('x'); e = parse_type(p); p.expect(']')
        t = ('array', n, e)
    elif v == '<':
        n = int(p.next()[1]); p.expect('x'); e = parse_type(p); p.expect('>')
        t = ('vec', n, e)
    else:
        raise IRError('bad type start %r in %s' % (v, p.src[:200]))
    while True:
        if p.accept('*'):
            t = ('ptr', t)
        elif p.at('(') :
            # function type
            p.next()
            ps = []; va = False
            if not p.accept(')'):
                while True:
                    if p.accept('...'):
                        va = True
                    else:
                        ps.append(parse_type(p))
                        p.skip_attrs()
                    if p.accept(')'): break
                    p.expect(',')
            t = ('func', t, tuple(ps), va)
        else:
            break
    return t

# ---------------------------------------------------------------- values
CAST_OPS = {'bitcast','ptrtoint','inttoptr','trunc','zext','sext','addrspacecast','fptoui','fptosi','uitofp','sitofp','fpext','fptrunc'}
BIN_OPS = {'add','sub','mul','udiv','sdiv','urem','srem','shl','lshr','ashr','and','or','xor',
           'fadd','fsub','fmul','fdiv','frem'}

def parse_value(p, ty):
    """value following an already parsed type. returns a tuple tree."""
    k, v = p.next()
    if k == 'local': return ('local', unq(v))
    if k == 'global': return ('global', unq(v))
    if k == 'int': return ('int', int(v))
    if k == 'float': return ('float', float(v))
    if k == 'hex': return ('hexfloat', v)
    if k == 'cstr': return ('cstr', decode_cstr(v))
    if k == 'word':
        if v == 'true': return ('int', 1)
        if v == 'false': return ('int', 0)
        if v == 'null': return ('int', 0)
        if v in ('undef', 'poison'): return ('undef',)
        if v == 'zeroinitializer': return ('zero',)
        if v == 'getelementptr':
            p.accept('inbounds')
            p.expect('(')
            sty = parse_type(p); p.expect(',')
            bt = parse_type(p); base = parse_value(p, bt)
            idx = []
            while p.accept(','):
                p.accept('inrange')
                it = parse_type(p); idx.append((it, parse_value(p, it)))
            p.expect(')')
            return ('cgep', sty, base, idx)
        if v in CAST_OPS:
            p.expect('(')
            st = parse_type(p); sv = parse_value(p, st)
            p.expect('to'); dt = parse_type(p); p.expect(')')
            return ('ccast', v, st, sv, dt)
        if v in BIN_OPS:
            while p.peek()[1] in ('nsw', 'nuw', 'exact'): p.next()
            p.expect('(')
            t1 = parse_type(p); a = parse_value(p, t1); p.expect(',')
            t2 = parse_type(p); b = parse_value(p, t2); p.expect(')')
            return ('cbin', v, t1, a, b)
        if v == 'icmp':
            pred = p.next()[1]; p.expect('(')
            t1 = parse_type(p); a = parse_value(p, t1); p.expect(',')
            t2 = parse_type(p); b = parse_value(p, t2); p.expect(')')
            return ('cicmp', pred, t1, a, b)
        if v == 'select':
            p.expect('(')
            tc = parse_type(p); c = parse_value(p, tc); p.expect(',')
            t1 = parse_type(p); a = parse_value(p, t1); p.expect(',')
            t2 = parse_type(p); b = parse_value(p, t2); p.expect(')')
            return ('cselect', c, t1, a, b)
        if v == 'blockaddress' or v == 'dso_local_equivalent' or v == 'no_cfi':
            raise IRError('unsupported constant ' + v)
    if v in ('{', '<{', '['):
        close = {'{': '}', '<{': '}>', '[': ']'}[v]
        elems = []
        if not p.accept(close):
            while True:
                et = parse_type(p); elems.append((et, parse_value(p, et)))
                if p.accept(close): break
                p.expect(',')
        return ('agg', elems)
    if v == '<':     # vector constant
        elems = []
        while True:
            et = parse_type(p); elems.append((et, parse_value(p, et)))
            if p.accept('>'): break
            p.expect(',')
        return ('agg', elems)
    raise IRError('bad value %r in %s' % (v, p.src[:300]))

def decode_cstr(v):
    s = v[2:-1]
    out = bytearray(); i = 0
    while i < len(s):
        if s[i] == '\\':
            if s[i+1] == '\\': out.append(92); i += 2
            else: out.append(int(s[i+1:i+3], 16)); i += 3
        else:
            out.append(ord(s[i])); i += 1
    return bytes(out)

def parse_tv(p):
    t = parse_type(p)
    p.skip_attrs()
    return t, parse_value(p, t)

# ---------------------------------------------------------------- module
class Global:
    def __init__(s, name, ty, init, const, tls, align, external):
        s.name = name; s.ty = ty; s.init = init; s.const = const; s.tls = tls
        s.align = align; s.external = external

class Func:
    def __init__(s, name, ret, params, vararg, attrs, body):
        s.name = name; s.ret = ret; s.params = params; s.vararg = vararg
        s.attrs = attrs; s.blocks = body   # list of (label, [instr]) ; None for declarations

class Module:
    def __init__(s):
        s.types = {}; s.globals = {}; s.funcs = {}; s.aliases = {}; s.attrgroups = {}

LINKAGE = {'private','internal','available_externally','linkonce','weak','common','appending',
           'extern_weak','linkonce_odr','weak_odr','external','dso_local','dso_preemptable',
           'hidden','protected','default','local_unnamed_addr','unnamed_addr','externally_initialized'}

def join_lines(text):
    """yield logical top-level / instruction lines"""
    lines = text.split('\n')
    out = []
    for ln in lines:
        if not ln.strip() or ln.lstrip().startswith(';'):
            continue
        # continuation: deeper than two spaces inside function bodies (switch cases, landingpad clauses, invoke 'to label')
        if (ln.startswith('   ') or ln.strip() == ']') and out:
            out[-1] += ' ' + ln.strip()
        else:
            out.append(ln)
    return out

def parse_module(text):
    m = Module()
    lines = join_lines(text)
    i = 0
    while i < len(lines):
        ln = lines[i]
        if ln.startswith('%') and ' = type ' in ln:
            toks = tokenize(ln); p = P(toks, ln)
            name = unq(p.next()[1]); p.expect('='); p.expect('type')
            m.types[name] = parse_type(p)
        elif ln.startswith('@'):
            parse_global(m, ln)
        elif ln.startswith('define '):
            j = i + 1
            while lines[j] != '}': j += 1
            parse_function(m, ln, lines[i+1:j])
            i = j
        elif ln.startswith('declare '):
            parse_function(m, ln, None)
        elif ln.startswith('attributes #'):
            mm = re.match(r'attributes (#[0-9]+) = \{(.*)\}', ln)
            m.attrgroups[mm.group(1)] = set(re.findall(r'(?<!")\b[a-z_]+\b(?!")', re.sub(r'"[^"]*"(="[^"]*")?', '', mm.group(2))))
        elif ln.startswith(('source_filename', 'target ', '$', '!', 'module asm', ';')) :
            pass
        else:
            raise IRError('unknown top-level line: ' + ln[:200])
        i += 1
    return m

def parse_global(m, ln):
    toks = tokenize(ln); p = P(toks, ln)
    name = unq(p.next()[1]); p.expect('=')
    tls = False; external = False
    while True:
        k, v = p.peek()
        if v == 'thread_local':
            p.next(); tls = True
            if p.accept('('): p.next(); p.expect(')')
        elif v in ('external', 'extern_weak'):
            external = True; p.next()
        elif k == 'word' and v in LINKAGE:
            p.next()
        else:
            break
    kind = p.next()[1]
    if kind == 'alias':
        parse_type(p); p.expect(',')
        t, val = parse_tv(p)
        m.aliases[name] = val
        return
    if kind == 'ifunc':
        raise IRError('ifunc unsupported')
    if kind not in ('global', 'constant'):
        raise IRError('bad global: ' + ln[:200])
    ty = parse_type(p)
    init = None
    if not external and not p.at(',') and not p.eof():
        init = parse_value(p, ty)
    align = None
    while p.accept(','):
        k, v = p.next()
        if v == 'align': align = int(p.next()[1])
        elif v == 'comdat':
            if p.accept('('): p.next(); p.expect(')')
        elif v == 'section': p.next()
        elif k == 'meta': p.next()
        else: pass
    m.globals[name] = Global(name, ty, init, kind == 'constant', tls, align, external or init is None)

def parse_function(m, header, body):
    toks = tokenize(header); p = P(toks, header)
    p.next()   # define / declare
    while True:
        k, v = p.peek()
        if k == 'word' and (v in LINKAGE or v in PARAM_ATTRS) and not re.fullmatch(r'i[0-9]+|void|float|double', v):
            p.next()
        elif k == 'word' and v in PAREN_ATTRS:
            p.skip_attrs()
        else: break
    ret = parse_type_nofunc(p)
    name = unq(p.next()[1])
    p.expect('(')
    params = []; va = False
    if not p.accept(')'):
        while True:
            if p.accept('...'): va = True
            else:
                t = parse_type(p); a = p.skip_attrs()
                pn = None
                if p.peek()[0] == 'local': pn = unq(p.next()[1])
                params.append((t, pn, a))
            if p.accept(')'): break
            p.expect(',')
    fa = p.skip_attrs()
    attrs = set(k for k in fa if k != 'groups')
    for g in fa.get('groups', []):
        attrs |= m.attrgroups.get(g, set()) | {g}
    f = Func(name, ret, params, va, attrs, None)
    if body is not None:
        # unnamed params get sequential numbers
        ctr = 0
        np_ = []
        for (t, pn, a) in params:
            if pn is None: pn = str(ctr); ctr += 1
            elif pn.isdigit(): ctr = int(pn) + 1
            np_.append((t, pn, a))
        f.params = np_
        f.blocks = parse_body(body, ctr, header)
    if name in m.funcs and m.funcs[name].blocks is not None and body is None:
        return
    m.funcs[name] = f

def parse_type_nofunc(p):
    """return type in a define/declare: stop before '@name(' """
    # parse_type would consume '(' as a function type only if next is '(' directly after the type;
    # in define lines the name comes first, so plain parse_type is safe.
    return parse_type(p)

def parse_body(lines, first_label, header):
    blocks = []
    cur = None
    label = None
    for ln in lines:
        mm = re.match(r'^([-a-zA-Z$._0-9]+|"(?:[^"\\]|\\.)*"):', ln)
        if mm:
            label = mm.group(1).strip('"')
            cur = []; blocks.append((label, cur))
            continue
        if cur is None:
            label = str(first_label)
            cur = []; blocks.append((label, cur))
        cur.append(parse_instr(ln.strip()))
    return blocks

def strip_meta(toks):
    """remove trailing ', !tbaa !5' style metadata attachments"""
    out = []
    i = 0
    while i < len(toks):
        if toks[i][1] == ',' and i + 1 < len(toks) and toks[i+1][0] == 'meta':
            # drop till end (metadata attachments are always last)
            break
        out.append(toks[i]); i += 1
    return out

ORDERINGS = {'unordered','monotonic','acquire','release','acq_rel','seq_cst'}

def parse_instr(ln):
    toks = strip_meta(tokenize(ln)); p = P(toks, ln)
    dst = None
    if p.peek()[0] == 'local' and p.peek(1)[1] == '=':
        dst = unq(p.next()[1]); p.next()
    k, op = p.next()
    I = {'op': op, 'dst': dst, 'src': ln}
    if op in ('tail', 'musttail', 'notail'):
        k, op = p.next(); I['op'] = op
    if op in BIN_OPS:
        while p.peek()[1] in ('nsw', 'nuw', 'exact', 'fast', 'nnan', 'ninf', 'nsz', 'arcp', 'contract', 'afn', 'reassoc'): p.next()
        t = parse_type(p); a = parse_value(p, t); p.expect(','); b = parse_value(p, t)
        I.update(ty=t, a=a, b=b)
    elif op == 'fneg':
        t = parse_type(p); I.update(ty=t, a=parse_value(p, t))
    elif op in ('icmp', 'fcmp'):
        pred = p.next()[1]
        t = parse_type(p); a = parse_value(p, t); p.expect(','); b = parse_value(p, t)
        I.update(pred=pred, ty=t, a=a, b=b)
    elif op in CAST_OPS:
        t = parse_type(p); a = parse_value(p, t); p.expect('to'); dt = parse_type(p)
        I.update(ty=t, a=a, dty=dt)
    elif op == 'select':
        tc, c = parse_tv(p); p.expect(',')
        t, a = parse_tv(p); p.expect(',')
        t2, b = parse_tv(p)
        I.update(cty=tc, c=c, ty=t, a=a, b=b)
    elif op == 'freeze':
        t, a = parse_tv(p); I.update(ty=t, a=a)
    elif op == 'alloca':
        p.accept('inalloca')
        t = parse_type(p); n = None; al = None
        while p.accept(','):
            if p.accept('align'): al = int(p.next()[1])
            elif p.accept('addrspace'): p.expect('('); p.next(); p.expect(')')
            else:
                nt = parse_type(p); n = (nt, parse_value(p, nt))
        I.update(ty=t, n=n, align=al)
    elif op == 'load':
        atomic = p.accept('atomic'); p.accept('volatile')
        t = parse_type(p); p.expect(',')
        pt, ptr = parse_tv(p)
        order = None
        while not p.eof():
            k2, v2 = p.next()
            if v2 in ORDERINGS: order = v2
            elif v2 == 'syncscope': p.expect('('); p.next(); p.expect(')')
        I.update(ty=t, ptr=ptr, atomic=atomic, order=order)
    elif op == 'store':
        atomic = p.accept('atomic'); p.accept('volatile')
        t, v = parse_tv(p); p.expect(',')
        pt, ptr = parse_tv(p)
        order = None
        while not p.eof():
            k2, v2 = p.next()
            if v2 in ORDERINGS: order = v2
        I.update(ty=t, val=v, ptr=ptr, atomic=atomic, order=order)
    elif op == 'fence':
        I.update(order=p.next()[1])
    elif op == 'cmpxchg':
        p.accept('weak'); p.accept('volatile')
        pt, ptr = parse_tv(p); p.expect(',')
        t, c = parse_tv(p); p.expect(',')
        t2, nv = parse_tv(p)
        o1 = p.next()[1]; o2 = p.next()[1]
        I.update(ty=t, ptr=ptr, cmp=c, new=nv, order=o1)
    elif op == 'atomicrmw':
        p.accept('volatile')
        rop = p.next()[1]
        pt, ptr = parse_tv(p); p.expect(',')
        t, v = parse_tv(p)
        I.update(rop=rop, ty=t, ptr=ptr, val=v, order=p.next()[1])
    elif op == 'getelementptr':
        p.accept('inbounds')
        sty = parse_type(p); p.expect(',')
        bt, base = parse_tv(p)
        idx = []
        while p.accept(','):
            it = parse_type(p); idx.append((it, parse_value(p, it)))
        I.update(sty=sty, base=base, idx=idx, bty=bt)
    elif op == 'extractvalue':
        t, a = parse_tv(p); idx = []
        while p.accept(','): idx.append(int(p.next()[1]))
        I.update(ty=t, a=a, idx=idx)
    elif op == 'insertvalue':
        t, a = parse_tv(p); p.expect(',')
        t2, b = parse_tv(p); idx = []
        while p.accept(','): idx.append(int(p.next()[1]))
        I.update(ty=t, a=a, ety=t2, b=b, idx=idx)
    elif op == 'phi':
        t = parse_type(p); inc = []
        while True:
            p.expect('['); v = parse_value(p, t); p.expect(',')
            lb = unq(p.next()[1]); p.expect(']')
            inc.append((v, lb))
            if not p.accept(','): break
        I.update(ty=t, inc=inc)
    elif op == 'br':
        if p.accept('label'):
            I.update(cond=None, t=unq(p.next()[1]))
        else:
            t, c = parse_tv(p); p.expect(','); p.expect('label'); a = unq(p.next()[1])
            p.expect(','); p.expect('label'); b = unq(p.next()[1])
            I.update(cond=c, t=a, f=b)
    elif op == 'switch':
        t, v = parse_tv(p); p.expect(','); p.expect('label'); d = unq(p.next()[1])
        p.expect('['); cases = []
        while not p.accept(']'):
            ct = parse_type(p); cv = parse_value(p, ct); p.expect(','); p.expect('label')
            cases.append((cv, unq(p.next()[1])))
        I.update(ty=t, v=v, default=d, cases=cases)
    elif op == 'ret':
        t = parse_type(p)
        I.update(ty=t, v=None if t == ('void',) else parse_value(p, t))
    elif op == 'unreachable':
        pass
    elif op == 'resume':
        t, v = parse_tv(p); I.update(ty=t, v=v)
    elif op == 'landingpad':
        t = parse_type(p); cl = []; cleanup = False
        while not p.eof():
            w = p.next()[1]
            if w == 'cleanup': cleanup = True
            elif w == 'catch':
                ct, cv = parse_tv(p); cl.append(('catch', cv))
            elif w == 'filter':
                ct, cv = parse_tv(p); cl.append(('filter', cv))
            else: raise IRError('landingpad: ' + ln)
        I.update(ty=t, clauses=cl, cleanup=cleanup)
    elif op in ('call', 'invoke'):
        a0 = p.skip_attrs()
        rt = parse_type(p)
        fty = None
        if rt[0] == 'func':
            fty = rt; rt = rt[1]
        elif rt[0] == 'ptr' and rt[1][0] == 'func' and p.peek()[0] not in ('global', 'local'):
            pass
        callee = parse_value(p, ('ptr', ('int', 8)))
        p.expect('(')
        args = []
        if not p.accept(')'):
            while True:
                at = parse_type(p); aa = p.skip_attrs()
                if at == ('metadata',):
                    # metadata operand: skip to matching , or )
                    depth = 0
                    while True:
                        k2, v2 = p.peek()
                        if depth == 0 and v2 in (',', ')'): break
                        if v2 == '(': depth += 1
                        if v2 == ')': depth -= 1
                        p.next()
                    args.append((at, ('undef',), aa))
                else:
                    args.append((at, parse_value(p, at), aa))
                if p.accept(')'): break
                p.expect(',')
        ca = p.skip_attrs()
        if p.accept('['):   # operand bundles
            while not p.accept(']'): p.next()
        I.update(rty=rt, fty=fty, callee=callee, args=args, cattrs=ca)
        if op == 'invoke':
            p.expect('to'); p.expect('label'); ok = unq(p.next()[1])
            p.expect('unwind'); p.expect('label'); lp = unq(p.next()[1])
            I.update(ok=ok, lp=lp)
    elif op == 'va_arg' or op in ('extractelement', 'insertelement', 'shufflevector', 'indirectbr', 'callbr',
                                  'catchswitch', 'catchpad', 'cleanuppad', 'catchret', 'cleanupret'):
        raise IRError('unsupported instruction: ' + ln)
    else:
        raise IRError('unknown instruction: ' + ln)
    return I

if __name__ == '__main__':
    m = parse_module(open(sys.argv[1]).read())
    print(len(m.types), 'types', len(m.globals), 'globals', len(m.funcs), 'funcs',
          sum(1 for f in m.funcs.values() if f.blocks is not None), 'defined', len(m.aliases), 'aliases')
