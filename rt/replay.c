/* replay back end: feeds recorded nondet values to a natively built harness (DESIGN.md 1.3) */
#include <stdio.h>
#include <stdlib.h>
#include <string.h>
#include <stdint.h>
#include <signal.h>
#include <unistd.h>
#include "rt.h"
#ifdef VERIF_NATIVE
#include <sys/mman.h>
int verif_exc, verif_exc_kind;
int STOP_IS_FAILURE, STOPPED;
#endif
static uint64_t vals[65536]; static int nvals, pos;
static unsigned char heap_img[1 << 16]; static int heap_len;
static int violations;
void harness(void);

uint64_t replay_next(const char* kind)
{
    (void)kind;
    if (pos >= nvals) { printf("REPLAY-EXHAUSTED after %d values\n", pos); fflush(stdout); exit(78); }
    return vals[pos++];
}
void replay_assert(int c, const char* msg)
{
    if (!c) { printf("ASSERTION-VIOLATED: %s\n", msg); fflush(stdout); violations++; exit(1); }
}
void replay_assume(int c, const char* what)
{
    if (!c) { printf("ASSUME-FAILED: %s\n", what); fflush(stdout); exit(77); }
}
void replay_load_heap(void)
{
#ifdef VERIF_NATIVE
    memcpy((void*)(uintptr_t)HEAP_BASE, heap_img, heap_len < HEAP_SIZE ? heap_len : HEAP_SIZE);
#else
    memcpy(HEAP, heap_img, heap_len < HEAP_SIZE ? heap_len : HEAP_SIZE);
#endif
}
static void on_abort(int s)
{
    (void)s;
    const char m[] = "STOPPED (signal)\n";
    write(1, m, sizeof m - 1);
#ifdef VERIF_NATIVE
    if (STOP_IS_FAILURE) { const char v[] = "ASSERTION-VIOLATED: program stopped (abort/terminate/trap) where it must not\n"; write(1, v, sizeof v - 1); _exit(1); }
#endif
    _exit(42);
}
int main(int argc, char** argv)
{
    if (argc < 2) { fprintf(stderr, "usage: %s replay.txt\n", argv[0]); return 2; }
    FILE* f = fopen(argv[1], "r");
    if (!f) { perror("replay file"); return 2; }
    char line[1 << 18];
    while (fgets(line, sizeof line, f)) {
        if (line[0] == 'N') { vals[nvals++] = strtoull(line + 2, 0, 10); }
        else if (line[0] == 'H') {
            char* p = line + 2;
            while (*p && *p != '\n') { unsigned v; sscanf(p, "%2x", &v); heap_img[heap_len++] = (unsigned char)v; p += 2; }
        }
    }
    fclose(f);
#ifdef VERIF_NATIVE
    void* m = mmap((void*)(uintptr_t)HEAP_BASE, (HEAP_SIZE + 4095) & ~4095ul, PROT_READ | PROT_WRITE,
                   MAP_PRIVATE | MAP_ANONYMOUS | MAP_FIXED_NOREPLACE, -1, 0);
    if (m != (void*)(uintptr_t)HEAP_BASE) { perror("mmap HEAP_BASE"); return 2; }
    signal(SIGABRT, on_abort); signal(SIGSEGV, on_abort); signal(SIGILL, on_abort); signal(SIGTRAP, on_abort);
#endif
    harness();
    printf("REPLAY-COMPLETED no assertion violated\n");
    return 0;
}
