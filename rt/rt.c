/* see rt.h */
#include "gen.h"
#include "rt.h"

uint64_t HEAP[HEAP_SIZE / 8];
uint64_t STK[STK_SIZE / 8];
uint64_t SP = STK_BASE;
int EXC, EXC_TYPE, STOPPED, STOP_IS_FAILURE;
uint64_t EXC_OBJ;
uint64_t ir_tid;

#ifdef IR_GCC
#include <stdio.h>
#include <stdlib.h>
void ir_fail(const char* msg) { printf("IR-CHECK-FAILED: %s\n", msg); fflush(stdout); exit(3); }
void ir_assume_fail(void) { printf("ASSUME-FAILED\n"); fflush(stdout); exit(77); }
#endif

#define INR(a, base, size, n) ((a) >= (base) && (a) - (base) <= (uint64_t)(size) - (n))
#ifdef IR_ONLY_HEAP
#define MASKFIX m &= RH;
#else
#define MASKFIX
#endif

/* Memory is word-granular: one decode of the (symbolic) word index serves a whole 8-byte access, which is what
 * almost every access of the library is.  Narrow and unaligned accesses read-modify-write one or two words. */
#define NMASK(N) ((N) >= 8 ? ~UINT64_C(0) : ((UINT64_C(1) << (8 * (N))) - 1))
#define RDN(A, o, N, r)                                                                     \
    do {                                                                                    \
        uint64_t i_ = (o) >> 3, b_ = (o) & 7, sh_ = b_ * 8;                                 \
        r = A[i_] >> sh_;                                                                   \
        if (b_ + (N) > 8) r |= A[i_ + 1] << (64 - sh_);                                     \
        r &= NMASK(N);                                                                      \
    } while (0)
#define WRN(A, o, N, v)                                                                     \
    do {                                                                                    \
        uint64_t i_ = (o) >> 3, b_ = (o) & 7, sh_ = b_ * 8, v_ = (uint64_t)(v) & NMASK(N);  \
        A[i_] = (A[i_] & ~(NMASK(N) << sh_)) | (v_ << sh_);                                 \
        if (b_ + (N) > 8)                                                                   \
            A[i_ + 1] = (A[i_ + 1] & ~(NMASK(N) >> (64 - sh_))) | (v_ >> (64 - sh_));       \
    } while (0)

#ifdef IR_PHANTOM
/* Sparse "phantom" region for blocks far larger than the modelled heap (C18 min_block_size harnesses):
 * an 8-byte store to an address not yet covered opens a 32-byte line there (that is how every chunk header
 * starts); accesses inside a line are exact; narrower stores outside every line are dropped (node payload that
 * is never read back); a load outside every line is a machinery error, never a silent nondet. */
#define PH_BASE UINT64_C(0x1000000)
#define PH_LINES 12
uint64_t PHL[PH_LINES * 4];
uint64_t ph_tag[PH_LINES];
int ph_n;
static int ph_find(uint64_t a, int N)
{
    /* lines are opened at strictly increasing addresses (checked in ph_store), so an address at or above the newest
       line can only belong to that line */
#ifndef IR_PHANTOM_ANYORDER
    if (ph_n > 0 && a >= ph_tag[ph_n - 1]) return a + (uint64_t)N <= ph_tag[ph_n - 1] + 32 ? ph_n - 1 : -1;
#endif
    for (int j = 0; j < PH_LINES; ++j)
        if (j < ph_n && a >= ph_tag[j] && a + (uint64_t)N <= ph_tag[j] + 32) return j;
    return -1;
}
static uint64_t ph_load(uint64_t a, int N)
{
    int j = ph_find(a, N); uint64_t r = 0;
    IR_CHECK(j >= 0, "phantom region: load from bytes that were never stored as part of a header line");
    if (j < 0) return 0;
    uint64_t o = (uint64_t)j * 32 + (a - ph_tag[j]);
    RDN(PHL, o, N, r);
    return r;
}
static void ph_store(uint64_t a, uint64_t v, int N)
{
    int j = ph_find(a, N);
    if (j < 0) {
        if (N != 8) return;                       /* payload byte, dropped */
        IR_CHECK(ph_n < PH_LINES, "phantom region: more header lines than PH_LINES");
        if (ph_n >= PH_LINES) return;
#ifndef IR_PHANTOM_ANYORDER
        IR_CHECK(ph_n == 0 || a >= ph_tag[ph_n - 1] + 32, "phantom region: header lines must be opened at increasing addresses");
#endif
        j = ph_n++; ph_tag[j] = a;
    }
    uint64_t o = (uint64_t)j * 32 + (a - ph_tag[j]);
    WRN(PHL, o, N, v);
}
#endif
static uint64_t ldn(uint64_t a, int m, int N)
{
    uint64_t r = 0;
    MASKFIX
#ifdef IR_PHANTOM
    if (a >= PH_BASE) return ph_load(a, N);
#endif
    if ((m & RH) && INR(a, HEAP_BASE, HEAP_SIZE, N)) { uint64_t o = a - HEAP_BASE; RDN(HEAP, o, N, r); return r; }
    if ((m & RS) && INR(a, STK_BASE, STK_SIZE, N)) { uint64_t o = a - STK_BASE; RDN(STK, o, N, r); return r; }
    if ((m & RG) && INR(a, GLB_BASE, GLB_SIZE, N)) { uint64_t o = a - GLB_BASE; RDN(GLB, o, N, r); return r; }
    if ((m & RC) && INR(a, GLC_BASE, GLC_SIZE, N)) { uint64_t o = a - GLC_BASE; RDN(GLC, o, N, r); return r; }
    IR_CHECK(0, "load outside every memory region");
    return 0;
}
static void stn(uint64_t a, uint64_t v, int m, int N)
{
    MASKFIX
#ifdef IR_PHANTOM
    if (a >= PH_BASE) { ph_store(a, v, N); return; }
#endif
    if ((m & RH) && INR(a, HEAP_BASE, HEAP_SIZE, N)) { uint64_t o = a - HEAP_BASE; WRN(HEAP, o, N, v); return; }
    if ((m & RS) && INR(a, STK_BASE, STK_SIZE, N)) { uint64_t o = a - STK_BASE; WRN(STK, o, N, v); return; }
    if ((m & RG) && INR(a, GLB_BASE, GLB_SIZE, N)) { uint64_t o = a - GLB_BASE; WRN(GLB, o, N, v); return; }
    IR_CHECK(0, "store outside every writable memory region");
}
uint8_t ld8(uint64_t a, int m) { return (uint8_t)ldn(a, m, 1); }
uint16_t ld16(uint64_t a, int m) { return (uint16_t)ldn(a, m, 2); }
uint32_t ld32(uint64_t a, int m) { return (uint32_t)ldn(a, m, 4); }
uint64_t ld64(uint64_t a, int m) { return ldn(a, m, 8); }
u128 ld128(uint64_t a, int m) { return (u128)ldn(a, m, 8) | (u128)ldn(a + 8, m, 8) << 64; }
void st8(uint64_t a, uint8_t v, int m) { stn(a, v, m, 1); }
void st16(uint64_t a, uint16_t v, int m) { stn(a, v, m, 2); }
void st32(uint64_t a, uint32_t v, int m) { stn(a, v, m, 4); }
void st64(uint64_t a, uint64_t v, int m) { stn(a, v, m, 8); }
void st128(uint64_t a, u128 v, int m) { stn(a, (uint64_t)v, m, 8); stn(a + 8, (uint64_t)(v >> 64), m, 8); }

uint64_t ir_alloca(uint64_t size, int align)
{
    uint64_t p = (SP + (uint64_t)align - 1) & ~((uint64_t)align - 1);
    IR_CHECK(size <= STK_SIZE && p + size <= STK_BASE + STK_SIZE - EXC_BUF_SIZE, "model stack exhausted (raise STK_SIZE)");
    SP = p + size;
    return p;
}

void ir_memmove(uint64_t d, uint64_t s, uint64_t n)
{
    if (n == 0 || d == s) return;
    if (d < s || d >= s + n) {
        uint64_t i = 0;
        for (; i + 8 <= n; i += 8) stn(d + i, ldn(s + i, 15, 8), 7, 8);
        for (; i < n; ++i) stn(d + i, ldn(s + i, 15, 1), 7, 1);
    } else {
        uint64_t i = n;
        for (; i >= 8; i -= 8) stn(d + i - 8, ldn(s + i - 8, 15, 8), 7, 8);
        for (; i > 0; --i) stn(d + i - 1, ldn(s + i - 1, 15, 1), 7, 1);
    }
}

#ifdef IR_MEMSET_SWEEP
/* bytes [lo, lo+n) of a word array := v, as one pass over ALL its words with constant indices: the cost is fixed by
 * the array size, independent of n, and needs no data-dependent unwinding bound (n symbolic and large is fine) */
#define SWEEP_BODY(A, WORDS)                                                                \
    uint32_t lo_ = (uint32_t)lo, hi_ = (uint32_t)(lo + n);    /* regions are far smaller than 4 GiB */ \
    uint64_t pat = UINT64_C(0x0101010101010101) * v;                                        \
    for (uint32_t w = 0; w < (WORDS); ++w) {                                                \
        uint32_t wlo = w << 3;                                                              \
        if (hi_ > wlo && lo_ < wlo + 8) {                                                   \
            uint64_t mk = ~UINT64_C(0);                                                     \
            if (lo_ > wlo) mk &= ~UINT64_C(0) << (((lo_ - wlo) & 7) * 8);                   \
            if (hi_ < wlo + 8) mk &= ~UINT64_C(0) >> (((wlo + 8 - hi_) & 7) * 8);           \
            A[w] = (A[w] & ~mk) | (pat & mk);                                               \
        }                                                                                   \
    }
static void memset_sweep_heap(uint64_t lo, uint64_t n, uint8_t v) { SWEEP_BODY(HEAP, HEAP_SIZE / 8) }
static void memset_sweep_stk(uint64_t lo, uint64_t n, uint8_t v) { SWEEP_BODY(STK, STK_SIZE / 8) }
static void memset_sweep_glb(uint64_t lo, uint64_t n, uint8_t v) { SWEEP_BODY(GLB, GLB_SIZE / 8) }
#else
static void memset_words(uint64_t* A, uint64_t lo, uint64_t n, uint8_t v)
{   /* bytes [lo, lo+n) of the word array A := v ; one read-modify-write per touched word */
    uint64_t hi = lo + n, pat = UINT64_C(0x0101010101010101) * v;
    for (uint64_t w = lo >> 3; w <= (hi - 1) >> 3; ++w) {
        uint64_t wlo = w << 3, mk = ~UINT64_C(0);
        if (lo > wlo) mk &= ~UINT64_C(0) << ((lo - wlo) * 8);
        if (hi < wlo + 8) mk &= ~UINT64_C(0) >> ((wlo + 8 - hi) * 8);
        A[w] = (A[w] & ~mk) | (pat & mk);
    }
}
#endif
void ir_memset(uint64_t d, uint8_t v, uint64_t n)
{
    if (n == 0) return;
#ifdef IR_PHANTOM
    if (d >= PH_BASE) return;   /* fill of payload, dropped (see above) */
#endif
#ifdef IR_MEMSET_SWEEP
    if (INR(d, HEAP_BASE, HEAP_SIZE, 1) && n <= HEAP_SIZE - (d - HEAP_BASE)) { memset_sweep_heap(d - HEAP_BASE, n, v); return; }
    if (INR(d, STK_BASE, STK_SIZE, 1) && n <= STK_SIZE - (d - STK_BASE)) { memset_sweep_stk(d - STK_BASE, n, v); return; }
    if (INR(d, GLB_BASE, GLB_SIZE, 1) && n <= GLB_SIZE - (d - GLB_BASE)) { memset_sweep_glb(d - GLB_BASE, n, v); return; }
#else
    if (INR(d, HEAP_BASE, HEAP_SIZE, 1) && n <= HEAP_SIZE - (d - HEAP_BASE)) { memset_words(HEAP, d - HEAP_BASE, n, v); return; }
    if (INR(d, STK_BASE, STK_SIZE, 1) && n <= STK_SIZE - (d - STK_BASE)) { memset_words(STK, d - STK_BASE, n, v); return; }
    if (INR(d, GLB_BASE, GLB_SIZE, 1) && n <= GLB_SIZE - (d - GLB_BASE)) { memset_words(GLB, d - GLB_BASE, n, v); return; }
#endif
    IR_CHECK(0, "memset outside every writable memory region");
}

/* loop-free bit counting (no unwinding bound needed) */
uint64_t ir_ctpop(uint64_t x)
{
    x = x - ((x >> 1) & UINT64_C(0x5555555555555555));
    x = (x & UINT64_C(0x3333333333333333)) + ((x >> 2) & UINT64_C(0x3333333333333333));
    x = (x + (x >> 4)) & UINT64_C(0x0f0f0f0f0f0f0f0f);
    return (x * UINT64_C(0x0101010101010101)) >> 56;
}
uint64_t ir_ctlz(uint64_t x, int bits)
{
    /* smear the highest set bit downwards, count the zeros above it */
    x |= x >> 1; x |= x >> 2; x |= x >> 4; x |= x >> 8; x |= x >> 16; x |= x >> 32;
    return (uint64_t)bits - ir_ctpop(x);
}
uint64_t ir_cttz(uint64_t x, int bits)
{
    if (x == 0) return (uint64_t)bits;
    return ir_ctpop((x & (~x + 1)) - 1);
}
uint64_t ir_bswap(uint64_t x, int bits)
{
    uint64_t r = 0;
    for (int i = 0; i < bits / 8; ++i) r |= ((x >> (8 * i)) & 0xff) << (bits - 8 - 8 * i);
    return r;
}
uint64_t ir_fsh(uint64_t a, uint64_t b, uint64_t c, int bits, int left)
{
    c %= (uint64_t)bits;
    u128 cat = ((u128)a << bits) | (u128)b;
    if (left) return (uint64_t)((cat << c) >> bits);
    return (uint64_t)(cat >> c);
}

void ir_stop(void)
{
    IR_CHECK(!STOP_IS_FAILURE, "program stopped (abort/terminate/trap) where it must not");
    STOPPED = 1;
#ifdef IR_GCC
    printf("STOPPED\n"); fflush(stdout); exit(42);
#else
    __CPROVER_assume(0);
#endif
}
void ir_trap(void) { ir_stop(); }
void ir_fence(void) {}
#if defined(IR_GCC) || !defined(IR_THREADS)
void ir_atomic_begin(void) {}
void ir_atomic_end(void) {}
#else
void ir_atomic_begin(void) { __CPROVER_atomic_begin(); }
void ir_atomic_end(void) { __CPROVER_atomic_end(); }
#endif

int ir_exc_isa(int ti)
{
    int t = EXC_TYPE;
    for (int k = 0; k < 8 && t > 0; ++k) {
        if (t == ti) return 1;
        t = ir_ti_parent[t];
    }
    return 0;
}
int ir_lp_select(int n, const int* ids)
{
    for (int i = 0; i < n; ++i) {
        if (ids[i] == 0) return 0x7fff; /* catch-all: any non-zero selector */
        if (ir_exc_isa(ids[i])) return ids[i];
    }
    return 0;
}

float ir_u2f(uint32_t x) { union { uint32_t u; float f; } c; c.u = x; return c.f; }
double ir_u2d(uint64_t x) { union { uint64_t u; double f; } c; c.u = x; return c.f; }
uint32_t ir_f2u(float x) { union { uint32_t u; float f; } c; c.f = x; return c.u; }
uint64_t ir_d2u(double x) { union { uint64_t u; double f; } c; c.f = x; return c.u; }

/* ---- models of the C/C++ runtime entry points the library reaches ---- */
void X_abort(void) { ir_stop(); }
void X__ZSt9terminatev(void) { ir_stop(); }
void X___clang_call_terminate(uint64_t e) { (void)e; ir_stop(); }
void X___cxa_pure_virtual(void) { ir_stop(); }
void X___assert_fail(uint64_t a, uint64_t b, uint32_t c, uint64_t d) { (void)a; (void)b; (void)c; (void)d; ir_stop(); }
void X__ZSt20__throw_length_errorPKc(uint64_t s) { (void)s; ir_stop(); }
void X__ZSt24__throw_out_of_range_fmtPKcz(uint64_t s) { (void)s; ir_stop(); }
void X__ZSt17__throw_bad_allocv(void) { EXC = 1; EXC_TYPE = -1; EXC_OBJ = 0; }
void X__ZSt28__throw_bad_array_new_lengthv(void) { EXC = 1; EXC_TYPE = -1; EXC_OBJ = 0; }
uint64_t X___cxa_allocate_exception(uint64_t size)
{
    IR_CHECK(size <= EXC_BUF_SIZE, "exception object larger than EXC_BUF_SIZE");
    return STK_BASE + STK_SIZE - EXC_BUF_SIZE;
}
void X___cxa_throw(uint64_t obj, uint64_t ti, uint64_t dtor)
{
    (void)dtor;
    EXC = 1; EXC_OBJ = obj; EXC_TYPE = ir_ti_id(ti);
}
uint64_t X___cxa_begin_catch(uint64_t obj) { return obj; }
void X__ZNSt9bad_allocD2Ev(uint64_t o) { (void)o; }
void X__ZNSt9exceptionD2Ev(uint64_t o) { (void)o; }
#ifndef IR_HOOK_NEW_DELETE
void X__ZdlPv(uint64_t p) { (void)p; }          /* only reached from deleting destructors of exception objects */
void X__ZdlPvm(uint64_t p, uint64_t n) { (void)p; (void)n; }
#endif
void X___cxa_rethrow(void) { EXC = 1; }
uint64_t X_strlen(uint64_t s)
{
    uint64_t n = 0;
    while (ld8(s + n, 15) != 0) ++n;
    return n;
}
uint32_t X_strcmp(uint64_t a, uint64_t b)
{
    for (uint64_t i = 0;; ++i) {
        uint8_t x = ld8(a + i, 15), y = ld8(b + i, 15);
        if (x != y) return x < y ? (uint32_t)-1 : 1u;
        if (x == 0) return 0;
    }
}
uint32_t X_memcmp(uint64_t a, uint64_t b, uint64_t n)
{
    for (uint64_t i = 0; i < n; ++i) {
        uint8_t x = ld8(a + i, 15), y = ld8(b + i, 15);
        if (x != y) return x < y ? (uint32_t)-1 : 1u;
    }
    return 0;
}

#ifdef IR_HOOK_MALLOC
/* std::malloc / std::free / operator new (nothrow) / operator delete as the harness's OS hook */
extern uint64_t verif_os_alloc(uint64_t size, uint64_t alignment);
extern void verif_os_free(uint64_t p, uint64_t size, uint64_t alignment);
uint64_t X_malloc(uint64_t n) { return verif_os_alloc(n, 16); }
void X_free(uint64_t p) { verif_os_free(p, 0, 0); }
#endif

/* thread-local destructors: __cxa_thread_atexit records, ir_thread_exit(tid) runs them (newest first) as thread tid */
extern void ir_call_vp(uint64_t fn, uint64_t arg);
#define IR_MAX_THREADS 4
#define IR_MAX_TLS_DTORS 4
static uint64_t tls_dtor_fn[IR_MAX_THREADS][IR_MAX_TLS_DTORS], tls_dtor_obj[IR_MAX_THREADS][IR_MAX_TLS_DTORS];
static int tls_dtor_n[IR_MAX_THREADS];
uint32_t X___cxa_thread_atexit(uint64_t fn, uint64_t obj, uint64_t dso)
{
    (void)dso;
    IR_CHECK(ir_tid < IR_MAX_THREADS && tls_dtor_n[ir_tid] < IR_MAX_TLS_DTORS, "model bound: thread-local destructors");
    tls_dtor_fn[ir_tid][tls_dtor_n[ir_tid]] = fn; tls_dtor_obj[ir_tid][tls_dtor_n[ir_tid]] = obj; tls_dtor_n[ir_tid]++;
    return 0;
}
void ir_thread_exit(uint64_t tid)
{
    uint64_t keep = ir_tid; ir_tid = tid;
    for (int i = IR_MAX_TLS_DTORS - 1; i >= 0; --i)
        if (i < tls_dtor_n[tid]) ir_call_vp(tls_dtor_fn[tid][i], tls_dtor_obj[tid][i]);
    tls_dtor_n[tid] = 0;
    ir_tid = keep;
}

#ifdef IR_HOOK_MMAP
/* POSIX virtual memory calls as harness hooks; documented contracts: mmap returns MAP_FAILED (-1) on failure,
 * munmap / mprotect return 0 or -1 (munmap of length 0 fails), madvise is advisory */
extern uint64_t verif_mmap(uint64_t len);
extern uint32_t verif_munmap(uint64_t p, uint64_t len);
extern uint32_t verif_mprotect(uint64_t p, uint64_t len, uint32_t prot);
extern uint64_t verif_page_size(void);
uint64_t X_mmap(uint64_t addr, uint64_t len, uint32_t prot, uint32_t flags, uint32_t fd, uint64_t off) { (void)addr; (void)prot; (void)flags; (void)fd; (void)off; return verif_mmap(len); }
uint32_t X_munmap(uint64_t p, uint64_t len) { return verif_munmap(p, len); }
uint32_t X_mprotect(uint64_t p, uint64_t len, uint32_t prot) { return verif_mprotect(p, len, prot); }
uint32_t X_madvise(uint64_t p, uint64_t len, uint32_t adv) { (void)p; (void)len; (void)adv; return 0; }
uint64_t X_sysconf(uint32_t name) { (void)name; return verif_page_size(); }
#endif

#ifdef IR_LIST_MODELS
/* the four out-of-line primitives of std::list that exist only inside libstdc++.so (src/c++98/list.cc): documented pointer
 * surgery on _List_node_base { _M_next @0, _M_prev @8 } */
#define NXT(p) ld64((p), 15)
#define PRV(p) ld64((p) + 8, 15)
#define SNXT(p, v) st64((p), (v), 7)
#define SPRV(p, v) st64((p) + 8, (v), 7)
void X__ZNSt8__detail15_List_node_base7_M_hookEPS0_(uint64_t self, uint64_t pos)
{
    SNXT(self, pos); SPRV(self, PRV(pos)); SNXT(PRV(pos), self); SPRV(pos, self);
}
void X__ZNSt8__detail15_List_node_base9_M_unhookEv(uint64_t self)
{
    uint64_t n = NXT(self), p = PRV(self); SNXT(p, n); SPRV(n, p);
}
void X__ZNSt8__detail15_List_node_base4swapERS0_S1_(uint64_t x, uint64_t y)
{
    if (NXT(x) != x) {
        if (NXT(y) != y) {
            uint64_t xn = NXT(x), xp = PRV(x), yn = NXT(y), yp = PRV(y);
            SNXT(x, yn); SPRV(x, yp); SNXT(y, xn); SPRV(y, xp);
            SPRV(NXT(x), x); SNXT(PRV(x), x); SPRV(NXT(y), y); SNXT(PRV(y), y);
        } else {
            SNXT(y, NXT(x)); SPRV(y, PRV(x)); SPRV(NXT(y), y); SNXT(PRV(y), y); SNXT(x, x); SPRV(x, x);
        }
    } else if (NXT(y) != y) {
        SNXT(x, NXT(y)); SPRV(x, PRV(y)); SPRV(NXT(x), x); SNXT(PRV(x), x); SNXT(y, y); SPRV(y, y);
    }
}
void X__ZNSt8__detail15_List_node_base11_M_transferEPS0_S1_(uint64_t self, uint64_t first, uint64_t last)
{
    if (self != last) {
        SNXT(PRV(last), self); SNXT(PRV(first), last); SNXT(PRV(self), first);
        uint64_t tmp = PRV(self); SPRV(self, PRV(last)); SPRV(last, PRV(first)); SPRV(first, tmp);
    }
}
#endif
