"""container_node_sizes_impl.hpp via the repo's own cmake/get_container_node_sizes.cmake (configure-only mini project)"""
import os, subprocess, shutil, tempfile
def generate(repo, out):
    d = out + '.cmk'
    shutil.rmtree(d, ignore_errors=True); os.makedirs(d)
    open(os.path.join(d, 'CMakeLists.txt'), 'w').write(
        'cmake_minimum_required(VERSION 3.14)\nproject(ns CXX)\n'
        'include(%s/cmake/get_container_node_sizes.cmake)\nget_container_node_sizes(%s)\n' % (repo, out))
    r = subprocess.run(['cmake', '-S', d, '-B', os.path.join(d, 'b'), '-DCMAKE_CXX_COMPILER=c++'], stdout=subprocess.PIPE, stderr=subprocess.STDOUT, text=True)
    shutil.rmtree(d, ignore_errors=True)
    if r.returncode or not os.path.exists(out):
        raise RuntimeError('container node size generation failed:\n' + r.stdout[-3000:])
