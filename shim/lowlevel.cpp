// shim group "lowlevel": detail::lowlevel_allocator<Functor> (fences, fill, global leak counter) over an OS hook, and malloc_allocator
#include "hooks.hpp"
#include <foonathan/memory/detail/lowlevel_allocator.hpp>
#include <foonathan/memory/malloc_allocator.hpp>
#include <foonathan/memory/heap_allocator.hpp>
#include <foonathan/memory/new_allocator.hpp>

using namespace foonathan::memory;
using namespace vshim;
extern "C" {
void* verif_os_alloc(ulong size, ulong alignment);
void verif_os_free(void* p, ulong size, ulong alignment);
}
struct hook_functor
{
    static allocator_info info() noexcept { return {"verif::hook_functor", nullptr}; }
    static void* allocate(std::size_t size, std::size_t alignment) noexcept { return verif_os_alloc(size, alignment); }
    static void deallocate(void* p, std::size_t size, std::size_t alignment) noexcept { verif_os_free(p, size, alignment); }
    static std::size_t max_node_size() noexcept { return std::size_t(-1) / 2; }
};
using ll = detail::lowlevel_allocator<hook_functor>;
using llh = detail::lowlevel_allocator_leak_handler<hook_functor>;

W void w_install_handlers() { install_handlers(); }
W ulong w_fence() { return detail::debug_fence_size; }
W ulong w_max_alignment() { return detail::max_alignment; }
W void* w_ll_allocate_node(ulong s, ulong a) { VTRY ll l; return l.allocate_node(s, a); VCATCH(nullptr) }
W void w_ll_deallocate_node(void* p, ulong s, ulong a) { ll l; l.deallocate_node(p, s, a); }
W void* w_ll_traits_allocate_array(ulong c, ulong s, ulong a) { VTRY ll l; return allocator_traits<ll>::allocate_array(l, c, s, a); VCATCH(nullptr) }
W void w_ll_traits_deallocate_array(void* p, ulong c, ulong s, ulong a) { ll l; allocator_traits<ll>::deallocate_array(l, p, c, s, a); }
W ulong w_ll_max_node_size() { ll l; return l.max_node_size(); }
// the per-TU counter objects of the stateless leak checker (one per translation unit in a real program)
#if FOONATHAN_MEMORY_DEBUG_LEAK_CHECK
using cnt = detail::global_leak_checker<llh>::counter;
W ulong w_counter_sizeof() { return sizeof(cnt); }
W void w_counter_ctor(void* o) { ::new (o) cnt(); }
W void w_counter_dtor(void* o) { static_cast<cnt*>(o)->~cnt(); }
W void w_leak_on_allocate(ulong n) { detail::global_leak_checker<llh> c; c.on_allocate(n); }
W void w_leak_on_deallocate(ulong n) { detail::global_leak_checker<llh> c; c.on_deallocate(n); }
#else
W ulong w_counter_sizeof() { return 1; }
W void w_counter_ctor(void*) {}
W void w_counter_dtor(void*) {}
W void w_leak_on_allocate(ulong) {}
W void w_leak_on_deallocate(ulong) {}
#endif
// the shipped malloc_allocator (std::malloc / std::free modelled by the same OS hook)
W void* w_malloc_allocate_node(ulong s, ulong a) { VTRY malloc_allocator m; return m.allocate_node(s, a); VCATCH(nullptr) }
W void w_malloc_deallocate_node(void* p, ulong s, ulong a) { malloc_allocator m; m.deallocate_node(p, s, a); }
