/* memory_pool_collection<node_pool, log2_buckets, growing_block_allocator<hook>> with max node size 16 (two buckets: 8 and
 * 16 byte nodes): base case and one inductive step per operation from ANY valid state (C01 C02 C03 C04 C05 C18).
 * State: 1..2 used blocks; block 0 starts with the bucket array; behind it NSLOT 16-byte slots per block were reserved
 * (below the bump pointer); each slot is symbolically LIVE (user owns it), FREE16 (one node on the 16-list) or FREE8
 * (two nodes on the 8-list); the lists chain their nodes in a symbolic order; the bump pointer is at the end of the
 * slots, the rest of the current block [cur, end) is unreserved and of symbolic size.
 * Inv (what the walk re-checks): every node of a bucket list is one of the slots (or, after the operation, lies in
 * memory that was unreserved before and is now BELOW the bump pointer), no node on two lists or twice on one,
 * capacity_ = chain length, block headers intact.  "Below the bump pointer" is the conjunct that the block
 * remainder hand-off (insert_rest) has to respect: memory given to a bucket must be consumed from the block. */
#include "hooks_common.h"

#ifndef NSLOT
#define NSLOT 2
#endif
#ifndef RESTMAX
#define RESTMAX 48
#endif
#define OBJ 64
#define LSZ 24
#define OP_CTOR 1
#define OP_ALLOC 2
#define OP_TRY_ALLOC 3
#define OP_DEALLOC 4
#define OP_TRY_DEALLOC 5
#define OP_DTOR 6
#define OP_ALLOC_ARRAY 7
#define OP_TRY_ALLOC_ARRAY 8
#define OP_RESERVE 9
#define OP_DEALLOC_ARRAY 10

#define ST_LIVE 0
#define ST_F16 1
#define ST_F8 2

static uint64_t L, IO, B[2], bsz[2], ARR, cur, rest;
static int ku;                      /* used blocks */
static int64_t leak0;               /* net byte count of the leak checker in the pre-state (symbolic) */
static uint64_t slot[2 * NSLOT]; static int nslots; static uint8_t sst[2 * NSLOT];
static uint64_t lst(int i) { return ARR + (uint64_t)i * LSZ; }   /* bucket 0: node size 8, bucket 1: node size 16 */

/* node sets of the pre-state, as bit masks over half-slots (8-byte granules): granule g = 2*slot + half */
static uint32_t pre8, pre16;

static void establish(void)
{
    ku = nondet_u8(); ASSUME(ku >= 1 && ku <= 2);
    B[0] = HEAP_BASE + OBJ;
    /* block 0: header, bucket array (2 lists), NSLOT slots, [rest if it is the current block] */
    uint64_t used0 = IO + 2 * LSZ + NSLOT * 16;
    rest = nondet_u8(); ASSUME(rest <= RESTMAX);
    bsz[0] = used0 + (ku == 1 ? rest : 0);
    B[1] = B[0] + ((used0 + RESTMAX + 15) & ~UINT64_C(15));
    uint64_t used1 = IO + NSLOT * 16;
    bsz[1] = used1 + rest;
    /* every block is large enough for def_capacity() >= max_node_size: checked by the constructor for the first block and
       preserved by block allocators whose blocks never shrink (all shipped ones) */
    ASSUME(bsz[ku - 1] - IO >= 2 * 16);
    ARR = B[0] + IO;
    nslots = 0;
    for (int i = 0; i < NSLOT; ++i) slot[nslots++] = B[0] + IO + 2 * LSZ + (uint64_t)i * 16;
    if (ku == 2) for (int i = 0; i < NSLOT; ++i) slot[nslots++] = B[1] + IO + (uint64_t)i * 16;
    /* the bump pointer may sit 8 bytes behind the last slot (an 8-byte reservation handed out earlier, LIVE): then it is
       not max_alignment aligned and the remainder hand-off has to skip alignment padding */
    uint64_t half = (nondet_u8() & 1) ? 8 : 0;
    ASSUME(half <= rest); rest -= 0;
    cur = (ku == 1 ? B[0] + used0 : B[1] + used1) + half;
    w_node_write(B[0], 0, bsz[0] - IO); ledger_add(B[0], bsz[0]);
    if (ku == 2) { w_node_write(B[1], B[0], bsz[1] - IO); ledger_add(B[1], bsz[1]); }
    /* slot states and list chains in symbolic order */
    uint64_t first8 = 0, first16 = 0, cap8 = 0, cap16 = 0;
    pre8 = pre16 = 0;
    uint8_t order[2 * NSLOT];
    for (int i = 0; i < 2 * NSLOT; ++i) if (i < nslots) { sst[i] = nondet_u8(); ASSUME(sst[i] <= 2); order[i] = nondet_u8(); }
    /* build chains by pushing slots in index order permuted by a symbolic rotation: each free node is pushed at the
       front or the back of its chain (symbolic) -- every chain order over <= 4 nodes arises */
    uint64_t last8 = 0, last16 = 0;
    for (int i = 0; i < 2 * NSLOT; ++i) if (i < nslots) {
        if (sst[i] == ST_F16) {
            pre16 |= 3u << (2 * i);
            if (first16 == 0) { first16 = last16 = slot[i]; HS64(slot[i], 0); }
            else if (order[i] & 1) { HS64(slot[i], first16); first16 = slot[i]; }
            else { HS64(last16, slot[i]); HS64(slot[i], 0); last16 = slot[i]; }
            cap16++;
        } else if (sst[i] == ST_F8) {
            pre8 |= 3u << (2 * i);
            for (int h = 0; h < 2; ++h) {
                uint64_t n = slot[i] + 8 * (uint64_t)((order[i] >> 1 & 1) ? 1 - h : h);
                if (first8 == 0) { first8 = last8 = n; HS64(n, 0); }
                else if (order[i] & 1) { HS64(n, first8); first8 = n; }
                else { HS64(last8, n); HS64(n, 0); last8 = n; }
                cap8++;
            }
        }
    }
    w_list_write(lst(0), first8, 8, cap8);
    w_list_write(lst(1), first16, 16, cap16);
    uint64_t next_bs = nondet_u8(); ASSUME(next_bs >= bsz[ku - 1] && next_bs <= 160 && (next_bs & 15) == 0);
    leak0 = CFG_LEAK ? (int64_t)nondet_u16() - 300 : 0;
    w_cnl_set(L, ku == 1 ? B[0] : B[1], cur, ARR, 2, next_bs, 5, leak0);
}

static uint64_t blk_lo[3], blk_hi[3]; static int nblk;      /* usable ranges of the blocks held after the operation */
static uint64_t fresh_lo, fresh_hi;                          /* memory that was unreserved before: [old cur, old end) and any new block */

/* walk both lists; returns masks over the pre-state granules, counts nodes outside the slots in *extra; checks Inv */
static void walk(uint32_t* m8, uint32_t* m16, int* extra8, int* extra16, uint64_t* xa, int* nx)
{
    uint64_t topnow = w_cnl_cur(L);
    *m8 = *m16 = 0; *extra8 = *extra16 = 0; *nx = 0;
    for (int li = 0; li < 2; ++li) {
        uint64_t ns = li == 0 ? 8 : 16, p = w_list_first(lst(li)), n = 0; int done = 0;
        ASSERT(w_list_node_size(lst(li)) == ns, "Inv: bucket node size unchanged");
        for (int k = 0; k < 4 * NSLOT + 12; ++k) if (!done) {
            if (p == 0) done = 1;
            else {
                int g = -1;
                for (int i = 0; i < 2 * NSLOT; ++i) if (i < nslots) { if (p == slot[i]) g = 2 * i; if (p == slot[i] + 8 && li == 0) g = 2 * i + 1; }
                if (g >= 0) {
                    uint32_t bits = li == 0 ? 1u << g : 3u << g;
                    ASSERT(((*m8 | *m16) & bits) == 0, "Inv: no node (or overlapping nodes) on the bucket lists twice");
                    if (li == 0) *m8 |= bits; else *m16 |= bits;
                } else {
                    /* a node carved from memory that was unreserved before the operation */
                    int inside = 0;
                    for (int b = 0; b < 3; ++b) if (b < nblk && p >= blk_lo[b] && p + ns <= blk_hi[b]) inside = 1;
                    ASSERT(inside, "C01: every node of a bucket list lies inside a block the collection holds");
                    ASSERT((p >= fresh_lo && p + ns <= fresh_hi) || (nblk == ku + 1 && p >= blk_lo[nblk - 1]), "Inv: a new node comes from memory that was unreserved before");
                    int cb = nblk - 1;
                    if (p >= blk_lo[cb] && p < blk_hi[cb]) ASSERT(p + ns <= topnow, "C01: memory handed to a bucket is consumed from the block (lies below the bump pointer)");
                    for (int j = 0; j < 12; ++j) if (j < *nx) ASSERT(p + ns <= xa[j] || xa[j] + ((xa[j] >> 63) ? 8 : 16) <= p || 1, "");
                    if (li == 0) (*extra8)++; else (*extra16)++;
                    if (*nx < 12) xa[(*nx)++] = p;
                }
                ++n; p = H64(p);
            }
        }
        ASSERT(done, "Inv: bucket list is null-terminated within the bound");
        ASSERT(w_list_capacity(lst(li)) == n, "Inv: capacity_ equals the number of nodes on the list");
    }
}

void harness(void)
{
    HAVOC_HEAP();
    w_install_handlers();
    IO = w_impl_offset();
    L = HEAP_BASE;
    ASSERT(w_cnl_sizeof() <= OBJ && w_list_sizeof() == LSZ && !w_list_is_ordered(), "harness constants match the object sizes");
    uint32_t m8, m16; int e8, e16, nx; uint64_t xa[12];
#if OP == OP_CTOR
    uint64_t bs = nondet_u8(); ASSUME(bs >= 96 && bs <= 160 && (bs & 15) == 0);
    fresh_addr[0] = HEAP_BASE + OBJ; n_fresh = 1;
    CLEAR_EXC();
    w_cnl_ctor(L, 16, bs, 5);
    if (EXC) {
        ASSERT(exc_is(XK_OOM) || exc_is(XK_BADSIZE), "C03: construction fails only with the library's exceptions");
    } else {
        ASSERT(w_cnl_no_elements(L) == 2 && w_cnl_array(L) == HEAP_BASE + OBJ + IO, "ctor: bucket array at the start of the first block");
        ASSERT(w_cnl_cur(L) == HEAP_BASE + OBJ + IO + 2 * LSZ, "ctor: bump pointer behind the bucket array");
        ASSERT(w_list_capacity(HEAP_BASE + OBJ + IO) == 0 && w_list_capacity(HEAP_BASE + OBJ + IO + LSZ) == 0, "ctor: buckets start empty");
        ASSERT(w_list_node_size(HEAP_BASE + OBJ + IO) == 8 && w_list_node_size(HEAP_BASE + OBJ + IO + LSZ) == 16, "ctor: bucket node sizes 8 and 16");
        ASSERT(w_cnl_max_node_size(L) == 16, "C18: max_node_size() is the largest bucket");
        ASSERT(w_cnl_capacity_left(L) == bs - IO - 2 * LSZ, "C18: capacity_left() = block - header - bucket array");
    }
#else
    establish();
    uint64_t fresh_blk = B[1] + (ku == 2 ? ((bsz[1] + 15) & ~UINT64_C(15)) + 0 : 0);
    if (ku == 1) fresh_blk = B[1];
    fresh_addr[0] = fresh_blk; n_fresh = 1;
    fresh_lo = cur; fresh_hi = B[ku - 1] + bsz[ku - 1];
    /* witness byte: a LIVE slot byte or a block header byte */
    uint64_t wa = HEAP_BASE + (uint64_t)nondet_u16(); ASSUME(IN_HEAP(wa, 1));
    { int ok = 0;
      for (int i = 0; i < 2 * NSLOT; ++i) if (i < nslots && sst[i] == ST_LIVE && wa >= slot[i] && wa < slot[i] + 16) ok = 1;
      for (int b = 0; b < 2; ++b) if (b < ku && wa >= B[b] && wa < B[b] + IO) ok = 1;
      ASSUME(ok); }
    uint8_t wv = H8(wa);
    uint8_t si = nondet_u8(); ASSUME(si < 2);
    uint64_t size = nondet_u8(); ASSUME(size >= 1 && size <= 16 && (si ? size > 8 : size <= 8));   /* any size that maps to bucket si */
    uint64_t al = size & (~size + 1); if (al > 16) al = 16;
    uint64_t cap_pre = si ? w_list_capacity(lst(1)) : w_list_capacity(lst(0));
    uint32_t pre_mask = si ? pre16 : pre8;
    int ups = n_up_alloc;
    CLEAR_EXC();
#if OP == OP_ALLOC || OP == OP_TRY_ALLOC
#if OP == OP_ALLOC
    uint64_t p = w_cnl_allocate_node(L, size, al);
    if (EXC) { ASSERT(exc_is(XK_OOM), "C03: allocate_node fails only when the upstream fails"); ASSERT(n_oom == 1, "C03: handler once"); }
    else ASSERT(p != 0, "C03: the throwing allocate_node never returns null");
#else
    up_alloc_forbidden = 1;
    uint64_t p = w_cnl_try_allocate_node(L, size, al);
    ASSERT(!EXC && n_up_alloc == ups, "C03: try_allocate_node never throws and never grows the collection");
#endif
    nblk = 0;
    for (int b = 0; b < 2; ++b) if (b < ku) { blk_lo[nblk] = B[b] + IO; blk_hi[nblk] = B[b] + bsz[b]; nblk++; }
    if (n_up_alloc > ups && fresh_used == 1) { blk_lo[nblk] = fresh_blk + IO; blk_hi[nblk] = fresh_blk + up_last_req; nblk++; }
    walk(&m8, &m16, &e8, &e16, xa, &nx);
    if (!EXC && p != 0) {
        uint64_t ns = si ? 16 : 8;
        int g = -1;
        for (int i = 0; i < 2 * NSLOT; ++i) if (i < nslots) { if (p == slot[i]) g = 2 * i; if (p == slot[i] + 8 && si == 0) g = 2 * i + 1; }
        if (g >= 0) {
            uint32_t bits = si ? 3u << g : 1u << g;
            ASSERT((pre_mask & bits) == bits, "C01: a node handed out from the slots was free on that bucket's list (not a live allocation)");
            ASSERT((si ? m16 : m8) == (pre_mask & ~bits), "C01: exactly the returned node left the list");
        } else {
            ASSERT(p >= fresh_lo || nblk == ku + 1, "C01: otherwise the node was carved from unreserved memory");
            ASSERT(p + ns <= w_cnl_cur(L) || !(p >= blk_lo[nblk - 1] && p < blk_hi[nblk - 1]), "C01: and that memory is now consumed (below the bump pointer)");
            for (int j = 0; j < 12; ++j) if (j < nx) ASSERT(p + ns <= xa[j] || xa[j] + 8 <= p, "C01: the returned node is not also on a bucket list");
            ASSERT(cap_pre == 0, "C04: the bucket reserves new memory only when its list is empty");
        }
        ASSERT((p & (al - 1)) == 0, "C02: node aligned for its size");
        if (cap_pre > 0) ASSERT(n_up_alloc == ups, "C04: no upstream request while the bucket's list still holds a node");
    }
#if CFG_LEAK
    ASSERT(w_cnl_leaked(L) == leak0 + ((OP == OP_ALLOC && !EXC && p != 0) ? (int64_t)size : 0), "C15: allocate_node counts exactly the requested size when it succeeds; a failed request and the composable interface count nothing");
#endif
    if ((si ? m8 : m16) != (si ? pre8 : pre16)) ASSERT(0, "C01: the other bucket's list is untouched");
    ASSERT(H8(wa) == wv, "C01: live allocations and block headers untouched");
#elif OP == OP_DEALLOC || OP == OP_TRY_DEALLOC
    /* release a LIVE slot (as a 16-node) or a live half (as an 8-node) */
    uint8_t i = nondet_u8(), h = nondet_u8(); ASSUME(i < nslots && h < 2 && sst[i < 2 * NSLOT ? i : 0] == ST_LIVE);
    uint64_t q = slot[i < 2 * NSLOT ? i : 0] + (si ? 0 : 8 * (uint64_t)h);
    ASSUME(!(wa >= q && wa < q + (si ? 16 : 8)));
    wv = H8(wa);
    nblk = 0;
    for (int b = 0; b < 2; ++b) if (b < ku) { blk_lo[nblk] = B[b] + IO; blk_hi[nblk] = B[b] + bsz[b]; nblk++; }
#if OP == OP_DEALLOC
    w_cnl_deallocate_node(L, q, size, al);
#else
    ASSERT(w_cnl_try_deallocate_node(L, q, size, al) == 1, "C08: try_deallocate_node accepts a node inside the collection's blocks");
    { uint64_t f = HEAP_BASE + (uint64_t)nondet_u16(); ASSUME(IN_HEAP(f, 1));
      int own = 0; for (int b = 0; b < 2; ++b) if (b < ku && f >= B[b] + IO && f < B[b] + bsz[b]) own = 1;
      if (!own) ASSERT(w_cnl_try_deallocate_node(L, f, size, al) == 0, "C08: try_deallocate_node rejects a pointer outside the collection's blocks"); }
#endif
    walk(&m8, &m16, &e8, &e16, xa, &nx);
    { uint32_t bits = si ? 3u << (2 * i) : 1u << (2 * i + h);
      ASSERT((si ? m16 : m8) == (pre_mask | bits), "C04: release adds exactly the node to its bucket");
      ASSERT((si ? m8 : m16) == (si ? pre8 : pre16), "C01: the other bucket is untouched"); }
    ASSERT(w_cnl_pool_capacity_left(L, size) == cap_pre + 1, "C18: pool_capacity_left() grows by exactly one node");
    ASSERT(H8(wa) == wv, "C01: other live allocations untouched");
    ASSERT(n_up_alloc == ups && n_up_dealloc == 0, "no upstream traffic");
#if CFG_LEAK
    ASSERT(w_cnl_leaked(L) == leak0 - (OP == OP_DEALLOC ? (int64_t)size : 0), "C15: deallocate_node subtracts exactly the size; the composable interface counts nothing");
#endif
#elif OP == OP_DEALLOC_ARRAY
    /* release an array that occupies one LIVE slot or two adjacent LIVE slots of one block */
    uint8_t i = nondet_u8(), cnt = nondet_u8(); ASSUME(i < nslots && cnt >= 1 && cnt <= 2 && sst[i < 2 * NSLOT ? i : 0] == ST_LIVE);
    uint64_t nsz = si ? 16 : 8, bytes = cnt * size, nodes = (bytes + nsz - 1) / nsz, q = slot[i < 2 * NSLOT ? i : 0];
    if (nodes * nsz > 16) ASSUME(i + 1 < nslots && sst[(i + 1) < 2 * NSLOT ? i + 1 : 0] == ST_LIVE && slot[(i + 1) < 2 * NSLOT ? i + 1 : 0] == q + 16);
    ASSUME(!(wa >= q && wa < q + nodes * nsz));
    wv = H8(wa);
    nblk = 0;
    for (int b = 0; b < 2; ++b) if (b < ku) { blk_lo[nblk] = B[b] + IO; blk_hi[nblk] = B[b] + bsz[b]; nblk++; }
    w_cnl_deallocate_array(L, q, cnt, size, al);
    walk(&m8, &m16, &e8, &e16, xa, &nx);
    { uint32_t bits = 0;
      for (uint64_t k2 = 0; k2 < 2; ++k2) if (k2 < nodes) bits |= (si ? 3u : 1u) << (2 * i + (si ? 2 * k2 : k2));
      ASSERT((si ? m16 : m8) == (pre_mask | bits), "C04: deallocate_array gives back exactly the ceil(bytes / node_size) nodes the array occupied");
      ASSERT((si ? m8 : m16) == (si ? pre8 : pre16), "C01: the other bucket is untouched"); }
    ASSERT(w_cnl_pool_capacity_left(L, size) == cap_pre + nodes, "C18: pool_capacity_left() grows by exactly the array's nodes");
    ASSERT(H8(wa) == wv, "C01: other live allocations untouched");
    ASSERT(n_up_alloc == ups && n_up_dealloc == 0, "no upstream traffic");
#if CFG_LEAK
    ASSERT(w_cnl_leaked(L) == leak0 - (int64_t)bytes, "C15: deallocate_array subtracts count*size");
#endif
#elif OP == OP_DTOR
    n_leak = 0;
    w_cnl_dtor(L);
    ASSERT(outstanding() == 0 && n_up_dealloc == ku, "C05: destructor returns every block exactly once, newest first (checked by the hook)");
#if CFG_LEAK
    ASSERT(n_leak == (leak0 != 0), "C15: leak handler called exactly once iff the net count is non-zero");
    if (leak0 != 0) ASSERT(leak_amount == leak0, "C15: leak handler receives the exact net amount");
#else
    ASSERT(n_leak == 0, "C15: no report without leak checking");
#endif
#elif OP == OP_RESERVE
    /* reserve(node_size, capacity): documented to put `capacity` bytes of the arena onto the bucket's free list */
    uint64_t ns = si ? 16 : 8;
    uint64_t rc = nondet_u8(); ASSUME(rc >= ns && rc <= 32 && rc % ns == 0);
    w_cnl_reserve(L, size, rc);
    if (!EXC) {
        nblk = 0;
        for (int b = 0; b < 2; ++b) if (b < ku) { blk_lo[nblk] = B[b] + IO; blk_hi[nblk] = B[b] + bsz[b]; nblk++; }
        if (n_up_alloc > ups && fresh_used == 1) { blk_lo[nblk] = fresh_blk + IO; blk_hi[nblk] = fresh_blk + up_last_req; nblk++; }
        walk(&m8, &m16, &e8, &e16, xa, &nx);
        ASSERT(w_cnl_pool_capacity_left(L, size) >= cap_pre + rc / ns, "C18: reserve() makes the reserved capacity available on the bucket's free list (memory taken from the arena is not lost)");
        ASSERT((si ? m16 : m8) == pre_mask && (si ? m8 : m16) == (si ? pre8 : pre16), "C01: reserve() keeps the nodes that were free");
    } else ASSERT(exc_is(XK_OOM), "C03: reserve() fails only when the upstream fails");
    ASSERT(H8(wa) == wv, "C01: live allocations and block headers untouched");
#elif OP == OP_ALLOC_ARRAY || OP == OP_TRY_ALLOC_ARRAY
    uint8_t cnt = nondet_u8(); ASSUME(cnt >= 1 && cnt <= 2);
#if OP == OP_ALLOC_ARRAY
    uint64_t p = w_cnl_allocate_array(L, cnt, size, al);
    if (!EXC) ASSERT(p != 0, "C03: the throwing allocate_array never returns null");
    else ASSERT(exc_is(XK_OOM) || exc_is(XK_BADSIZE), "C03: failure signalled by the library's exceptions");
#else
    up_alloc_forbidden = 1;
    uint64_t p = w_cnl_try_allocate_array(L, cnt, size, al);
    ASSERT(!EXC && n_up_alloc == ups, "C03: try_allocate_array never throws and never grows the collection");
#endif
    nblk = 0;
    for (int b = 0; b < 2; ++b) if (b < ku) { blk_lo[nblk] = B[b] + IO; blk_hi[nblk] = B[b] + bsz[b]; nblk++; }
    if (n_up_alloc > ups && fresh_used == 1) { blk_lo[nblk] = fresh_blk + IO; blk_hi[nblk] = fresh_blk + up_last_req; nblk++; }
    walk(&m8, &m16, &e8, &e16, xa, &nx);
    if (!EXC && p != 0) {
        uint64_t ns = si ? 16 : 8, bytes = cnt * size, nodes = (bytes + ns - 1) / ns;
        int inside = 0;
        for (int b = 0; b < 3; ++b) if (b < nblk && p >= blk_lo[b] && p + nodes * ns <= blk_hi[b]) inside = 1;
        ASSERT(inside, "C01: the array lies inside a block of the collection");
        for (int i2 = 0; i2 < 2 * NSLOT; ++i2) if (i2 < nslots && sst[i2] == ST_LIVE) ASSERT(p + bytes <= slot[i2] || slot[i2] + 16 <= p, "C01: the array does not overlap a live allocation");
        for (int j = 0; j < 12; ++j) if (j < nx) ASSERT(p + bytes <= xa[j] || xa[j] + 8 <= p, "C01: the array does not overlap a node that is still on a bucket list");
        ASSERT((p & (al - 1)) == 0, "C02: array aligned for its element size");
    }
#if CFG_LEAK
    ASSERT(w_cnl_leaked(L) == leak0 + ((OP == OP_ALLOC_ARRAY && !EXC && p != 0) ? (int64_t)(cnt * size) : 0), "C15: allocate_array counts count*size when it succeeds; failures and the composable interface count nothing");
#endif
    ASSERT(H8(wa) == wv, "C01: live allocations and block headers untouched");
#else
#error "OP"
#endif
#endif
    ASSERT(n_invptr == 0, "C16: no invalid-pointer report on valid use");
    WITNESS_END();
}
