#!/usr/bin/env python3
"""apply a seeded change to /repo, run the quick checks of the given properties, undo it; prints caught/missed"""
import sys, subprocess, os, json, time
seed = sys.argv[1]; props = sys.argv[2:]
tier = os.environ.get('SEED_TIER', 'quick')
patch = os.path.join('/verif/seeded', seed, 'patch.diff')
r = subprocess.run(['git', '-C', '/repo', 'apply', patch])
if r.returncode: sys.exit('patch does not apply')
res = {}
try:
    for p in props:
        t = time.time()
        out = subprocess.run(['/verif/check', p, '--tier', tier], capture_output=True, text=True)
        viol = [l for l in out.stdout.splitlines() if l.startswith('VIOLATION')]
        other = [l for l in out.stdout.splitlines() if l.startswith(('INCONCLUSIVE', 'ERROR', 'UNDECIDED', 'VACUOUS'))]
        jobs = [l.strip() for l in out.stdout.splitlines() if l.strip().startswith('job=')]
        res[p] = dict(rc=out.returncode, violations=len(viol), jobs=jobs[:6], other=[o[:200] for o in other[:4]], secs=round(time.time() - t))
        print(seed, p, 'rc=%d' % out.returncode, 'VIOLATIONS=%d' % len(viol), jobs[:3], [o[:160] for o in other[:3]], flush=True)
finally:
    subprocess.run(['git', '-C', '/repo', 'checkout', '--', '.'])
json.dump(res, open(os.path.join('/verif/seeded', seed, 'result-%s.json' % tier), 'w'), indent=1)
